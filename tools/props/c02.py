"""C02 — the n-best list is duplicate-free, best-first and optimal over all connectable paths."""
from props import kkc_common as K


def check(r, ctx, store, fails, stats):
    d = store[ctx]
    if d["cands"] is None or d["edges"] is None:
        return
    n = r.case.n
    paths = K.all_paths(d["edges"])
    if paths is None:
        stats["paths_over_cap"] += 1
        return
    surf = K.surface_of(d["lattice"])
    best = {}
    for chain, sc in paths:
        t = "".join(surf.get(x, "?") for x in chain)
        if t not in best or sc > best[t]:
            best[t] = sc
    stats["paths"] += len(paths)
    for which, limit in (("cands", n), ("all", K.ALLN)):
        R = d[which]
        stats["lists"] += 1
        base = dict(r.case.describe(), context=ctx, requested=limit, returned=[(c["text"], c["score"]) for c in R][:12],
                    all_paths_best=sorted(best.items(), key=lambda kv: -kv[1])[:12])
        texts = [c["text"] for c in R]
        if len(R) > limit:
            fails.append(("too-many", {"kind": "too-many"}, base))
        if len(set(texts)) != len(texts):
            fails.append(("duplicate", {"kind": "duplicate"}, base))
        sc = [c["score"] for c in R]
        if any(a < b for a, b in zip(sc, sc[1:])):
            fails.append(("order", {"kind": "order"}, base))
        for c in R:
            if c["text"] not in best:
                fails.append(("not-a-path", {"kind": "not-a-path"}, base))
            elif best[c["text"]] != c["score"]:
                fails.append(("not-best-tiling", {"kind": "not-best-tiling"}, base))
        want = min(limit, len(best))
        if len(R) != want:
            fails.append(("count", {"kind": "count"}, base))
        elif R:
            worst = min(sc)
            for t, s in best.items():
                if t not in texts and s > worst:
                    fails.append(("missed-better", {"kind": "missed-better"}, dict(base, missed=(t, s))))
                    break
    # the forward pass, on the engine's own scores as its hooks report them
    stats["forward_checks"] = stats.get("forward_checks", 0) + 1
    bad_ = K.forward_inconsistency(d)
    if bad_ is not None:
        fails.append(("forward-score", {"kind": "forward-score"}, dict(r.case.describe(), context=ctx, **bad_)))
    if d["again"] != d["cands"]:
        fails.append(("not-deterministic", {"kind": "not-deterministic"}, dict(r.case.describe(), context=ctx)))


def run(run, replay=None):
    run.assumptions += ["path scores < 2^31 (Score is i32; larger sums overflow)",
                        "optimality is judged against exhaustive enumeration of the lattice the engine's own hook reports, with the "
                        "engine's own node/edge scores; lattices with more than 20000 paths are skipped and counted"]
    run.regenerate(["Kkc", "Dic"])
    if run.build_props():
        run.audit()
    results, dis, cases = K.run_cases(run)
    if results is None:
        return
    fails = []
    stats = {"paths": 0, "lists": 0, "paths_over_cap": 0}
    for r in results:
        for store in (r.base, r.learned):
            if store is None:
                continue
            for ctx in K.CTXS:
                check(r, ctx, store, fails, stats)
    K.coverage(run, results, cases)
    run.cov["oracle_checks"] = stats
    K.report(run, "C02", fails, dis, "lattice/edges/candidates")
