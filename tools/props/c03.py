"""C03 — conversion offers every matching dictionary word and only dictionary words."""
from props import kkc_common as K

ANCILLARY = ("P.", "AUX", "AFX.")


def is_anc(sp):
    return sp.startswith(ANCILLARY)


def run(run, replay=None):
    run.assumptions += ["the tries are built by the real trie::Trie from the dictionary readings (random insertion orders); the "
                        "model uses the ideal key set, so a trie false negative shows up as a missing lattice node"]
    run.regenerate(["Kkc", "Dic", "Server"])
    if run.build_props():
        run.audit()
    results, dis, cases = K.run_cases(run)
    if results is None:
        return
    fails = []
    stats = {"word_parts_checked": 0, "head_words_expected": 0, "after_prefix_expected": 0}
    for r in results:
        c = r.case
        inp = c.inp
        entries = {}
        for d, rd, sf, sp in c.words:
            entries.setdefault((rd, sf, sp), set()).add(d[:3])
        in_alpha = lambda s: all(ch in K.ALPHA for ch in s)
        for store in (r.base, r.learned):
            if store is None:
                continue
            for ctx in K.CTXS:
                allc = store[ctx]["all"]
                if allc is None:
                    continue
                texts = {cd["text"] for cd in allc}
                for cd in allc:
                    for nd in cd["chain"]:
                        if nd["kind"] == "word":
                            stats["word_parts_checked"] += 1
                            if (nd["reading"], nd["surface"], nd["speech"]) not in entries:
                                fails.append(("invented-word", {"kind": "invented-word"},
                                              dict(c.describe(), context=ctx, candidate=cd["text"], part=[nd["surface"], nd["reading"], nd["speech"]])))
                            st = nd["end"] + 1 - len(nd["reading"])
                            if inp[st:nd["end"] + 1] != nd["reading"]:
                                fails.append(("wrong-span", {"kind": "wrong-span"},
                                              dict(c.describe(), context=ctx, candidate=cd["text"], part=[nd["surface"], nd["reading"]])))
                # completeness at the head: every independent standard word whose reading is a prefix of the input
                for d, rd, sf, sp in c.words:
                    if d == "std" and not is_anc(sp) and rd and inp.startswith(rd) and in_alpha(rd):
                        stats["head_words_expected"] += 1
                        want = sf + inp[len(rd):]
                        if want not in texts:
                            fails.append(("missing-head-word", {"kind": "missing-head-word"},
                                          dict(c.describe(), context=ctx, expected_candidate=want, have=sorted(texts)[:10])))
                # … and right after a leading prefix-affix, for words the engine's own rules connect to a prefix
                edges = store[ctx]["edges"] or []
                lat = store[ctx]["lattice"] or []
                ids = {n["id"]: n for p in lat for n in p}
                for d, prd, psf, psp in c.words:
                    if d != "anc" or psp != "AFX.prefix" or not prd or not inp.startswith(prd) or not in_alpha(prd):
                        continue
                    for d2, rd, sf, sp in c.words:
                        if d2 != "std" or is_anc(sp) or not rd or not in_alpha(rd) or not inp[len(prd):].startswith(rd):
                            continue
                        # does the engine connect this prefix to this word?  (its own edge score)
                        ok = False
                        for p, n_, e, ns in edges:
                            a, b = ids.get(p), ids.get(n_)
                            if a and b and a["kind"] == "word" and b["kind"] == "word" and e >= 0 and \
                               (a["reading"], a["surface"], a["speech"]) == (prd, psf, psp) and a["end"] == len(prd) - 1 and \
                               (b["reading"], b["surface"], b["speech"]) == (rd, sf, sp) and b["end"] == len(prd) + len(rd) - 1:
                                ok = True
                        speech_connects = sp.startswith("N.") or sp.startswith("V.")
                        if not ok:
                            if speech_connects:
                                fails.append(("missing-after-prefix-node", {"kind": "missing-after-prefix-node"},
                                              dict(c.describe(), context=ctx, prefix=psf, word=sf)))
                            continue
                        stats["after_prefix_expected"] += 1
                        want = psf + sf + inp[len(prd) + len(rd):]
                        if want not in texts:
                            fails.append(("missing-after-prefix", {"kind": "missing-after-prefix"},
                                          dict(c.describe(), context=ctx, expected_candidate=want, have=sorted(texts)[:10])))
    # ---- the loaded dictionary extended at run time and at start-up (real server): a user word that shares its reading with
    # words of the dictionary must not displace them — while the server runs, and after it restarted on the user.dic it wrote
    import os
    import shutil
    from props import server_common as S
    bindir = S.build_binaries(run)
    if bindir is not None:
        wd = S.workdir("c03")
        dic = S.make_dictionary(bindir, wd)
        ud = os.path.join(wd, "user")
        srv = S.Server(bindir, dic, ud, workers=4, save_secs=1)
        try:
            if dic is not None and srv.wait_listening():
                shared = [("さけ", ["酒", "鮭"], "避け"), ("やま", ["山"], "耶麻"), ("ほん", ["本"], "翻")]
                for rd, builtin, new in shared:
                    srv.rpc("RegisterWord", {"kind": "CommonNoun", "reading": rd, "word": new})
                S.wait_until(lambda: (lambda d_: d_ is not None and len(d_["user_entries"]) >= len(shared))(srv.dump()), 4.0)

                def offered(server, when):
                    for rd, builtin, new in shared:
                        got = S.texts(server.conv(rd, timeout=10.0)) or []
                        stats["user_word_homophones_checked"] = stats.get("user_word_homophones_checked", 0) + 1
                        for w_ in builtin + [new]:
                            if w_ not in got:
                                fails.append(("missing-head-word", {"kind": "missing-head-word", "phase": "user-word-shares-reading", "when": when},
                                              {"input": rd, "missing": w_, "dictionary_words": builtin, "registered": new, "when": when, "candidates": got}))
                offered(srv, "running")
                p_ = os.path.join(ud, "user.dic")
                S.wait_until(lambda: os.path.exists(p_) and all(n_ in open(p_, encoding="utf-8", errors="replace").read() for _, _, n_ in shared), 6.0)
                srv.stop()
                srv = S.Server(bindir, dic, ud, workers=4, save_secs=1)
                if srv.wait_listening():
                    offered(srv, "after-restart")
        finally:
            srv.stop()
        shutil.rmtree(wd, ignore_errors=True)
    K.coverage(run, results, cases)
    run.cov["oracle_checks"] = stats
    K.report(run, "C03", fails, dis, "lattice/edges/candidates")
