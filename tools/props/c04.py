"""C04 — the double-array trie is an exact set under any insertion history.

Two passes over the same operation list: the real `trie::Trie` first (the `chokan_verif` hook reports
the base every `xcheck` call returned — the only nondeterministic choice), then the Lean model with
those choices as its oracle.  Compared: the complete `base/check/free` state after operations, every
lookup answer, every insert status."""
import json

import checklib as cl
from props import common


def parse_dump(d):
    parts = dict(p.split("=", 1) for p in d.split(" "))
    slots = [tuple(int(x) for x in s.split(":")) for s in parts["slots"].split(",")] if parts["slots"] else []
    free = [int(x) for x in parts["free"].split(",")] if parts.get("free") else []
    return slots, free


def structure_ok(slots, free, nlabels):
    """The structural invariant (Python copy of Chokan.Lemmas.Trie.Inv) on an implementation dump."""
    n = len(slots)
    if n == 0 or slots[0][1] != 0 or slots[0][0] < 0:
        return "root"
    if sorted(set(free)) != sorted(free):
        return "free-dup"
    if set(free) != {i for i in range(n) if slots[i][1] < 0}:
        return "free-set != unused checks"
    for i, (b, c) in enumerate(slots):
        if c < 0 and b != -1:
            return "free slot %d has base %d" % (i, b)
        if i > 0 and c >= 0:
            if c == i or c >= n or slots[c][1] < 0 or slots[c][0] < 0:
                return "slot %d: bad parent %d" % (i, c)
            l = i - slots[c][0]
            if not (1 <= l <= nlabels):
                return "slot %d: label %d out of range" % (i, l)
    return None


def gen_history(rng, thorough):
    kind = rng.below(10)
    if kind == 0:
        n = 250 + rng.below(5)
        alpha = [chr(0x3041 + i) for i in range(n)]
    else:
        n = 1 + rng.below(12)
        alpha = [chr(0x61 + i) for i in range(n)]
    small = alpha[:max(1, min(len(alpha), 2 + rng.below(3)))]
    outside = ["Z", "ー", "0"]
    nins = 1 + rng.below(400 if (thorough and rng.chance(1, 4)) else 40)
    keys = []
    ops = [("tnew", "".join(alpha))]
    inserted = []
    for _ in range(nins):
        r = rng.below(20)
        if r == 0:
            k = ""
        elif r <= 4 and inserted:
            base = rng.pick(inserted)
            k = base + "".join(rng.pick(small) for _ in range(1 + rng.below(3)))        # extension of an earlier key
        elif r <= 7 and inserted:
            base = rng.pick(inserted)
            k = base[:rng.below(len(base) + 1)]                                           # prefix of an earlier key
        elif r == 8:
            k = "".join(rng.pick(small) for _ in range(rng.below(4))) + rng.pick(outside)  # rejected
        elif r == 9 and inserted:
            k = rng.pick(inserted)                                                         # duplicate
        elif r <= 12:
            k = rng.pick(small) * (1 + rng.below(12))                                      # long shared prefix
        elif r == 13:
            # the ends of the alphabet (first, last and middle character get the extreme labels)
            k = "".join(rng.pick([alpha[0], alpha[-1], alpha[len(alpha) // 2]]) for _ in range(1 + rng.below(3)))
        else:
            k = "".join(rng.pick(small if rng.chance(3, 4) else alpha) for _ in range(1 + rng.below(6)))
        ops.append(("tins", k))
        if all(c in alpha for c in k):
            inserted.append(k)
        keys.append(k)
        if rng.chance(1, 15):
            ops.append(("trt", ""))
        if nins <= 60 or rng.chance(1, 20):
            ops.append(("tdump", ""))
    ops.append(("tdump", ""))
    probes = set(keys)
    for k in list(keys):
        for i in range(len(k)):
            probes.add(k[:i])
        probes.add(k + rng.pick(small))
    for _ in range(20):
        probes.add("".join(rng.pick(small) for _ in range(rng.below(5))))
    probes = sorted(probes)
    for p in probes:
        ops.append(("tq", p))
    return alpha, ops, set(inserted), probes


def run(run, replay=None):
    run.assumptions += [
        "serde/postcard round trip and Clone of the trie are modelled as the identity on (base, check, free-as-set, labels); "
        "validated by the `trt` operations of the correspondence stream",
        "`find_labels_of` iterates a HashMap; the model uses ascending label order (validated by exact state comparison)",
        "array indices < 2^31 and alphabets of 1..254 distinct characters (u8 labels) are assumed",
    ]
    if run.build_props():
        run.audit()
    rng = cl.Rng(run.seed)
    thorough = run.tier == "thorough"
    nhist = 600 if thorough else 80
    hists = [gen_history(rng, thorough) for _ in range(nhist)]
    # corpus: the repository's own japanese_label_case_1 and a relocation-heavy history
    corpus = [("じっしつてきになさい", ["じっしつ", "じっしつてき", "じっしつてきに", "じっしつてきな", "じって", "じっさい"]),
              ("ab", ["a", "b", "ab", "ba", "aa", "bb", "aab", "abb", "", "bab"])]
    for alpha, ks in corpus:
        ops = [("tnew", alpha)]
        for k in ks:
            ops += [("tins", k), ("tdump", "")]
        ops.append(("trt", ""))
        ops += [("tins", ks[0] + alpha[0]), ("tdump", "")]
        probes = sorted(set(ks) | {k[:i] for k in ks for i in range(len(k))} | {k + alpha[0] for k in ks})
        ops += [("tq", p) for p in probes]
        hists.insert(0, (list(alpha), ops, set(ks) | {ks[0] + alpha[0]}, probes))
    lines = []
    meta = []
    for hi, (alpha, ops, inserted, probes) in enumerate(hists):
        for op, a in ops:
            lines.append("%s %s" % (op, cl.cps(a)) if op not in ("tdump", "trt") else op)
            meta.append((hi, op, a))
    bindir = run.build_harness(["impl_driver"])
    if bindir is None:
        return
    rc, out, err = run.run_harness(bindir, "impl_driver", input="\n".join(lines) + "\n")
    impl = out.splitlines()
    if rc != 0 or len(impl) != len(lines):
        run.failures.append(cl.Failure("infra", "impl_driver failed on the trie stream (rc=%s)" % rc, detail=err[-300:]))
        return
    # second pass: the model, with the oracle reported by the implementation
    mlines = []
    for l, (hi, op, a), r in zip(lines, meta, impl):
        if op == "tins" and r.startswith("ok |"):
            mlines.append("%s | %s" % (l, r[4:].strip()))
        else:
            mlines.append(l)
    model = run.run_driver(mlines)
    dis = []
    fails = []
    stats = {"histories": len(hists), "inserts": 0, "rejected": 0, "relocations": 0, "roundtrips": 0, "lookups": 0,
             "xcheck_calls": 0, "big_alphabets": sum(1 for h in hists if len(h[0]) >= 250), "max_slots": 0,
             "inserts_after_roundtrip": 0}
    last_dump = {}
    seen_rt = set()
    relocating = set()
    for idx, ((hi, op, a), r) in enumerate(zip(meta, impl)):
        m = model[idx] if model is not None else None
        if m is not None and m != r:
            dis.append({"history": hi, "op": op, "arg": a, "impl": r[:200], "model": m[:200]})
        alpha, ops, inserted, probes = hists[hi]
        if op == "tins":
            stats["inserts"] += 1
            if hi in seen_rt:
                stats["inserts_after_roundtrip"] += 1
            if r == "reject":
                stats["rejected"] += 1
                if all(c in alpha for c in a):
                    fails.append(("reject", hi, {"alphabet": "".join(alpha), "alphabet_size": len(alpha), "key": a, "result": "rejected a key spelled in the alphabet"}))
            elif r.startswith("ok"):
                stats["xcheck_calls"] += len(r[4:].split())
                if not all(c in alpha for c in a):
                    fails.append(("accept", hi, {"alphabet": "".join(alpha), "alphabet_size": len(alpha), "key": a, "result": "accepted a key outside the alphabet"}))
            else:
                fails.append(("panic", hi, {"alphabet": "".join(alpha), "alphabet_size": len(alpha), "key": a, "result": r}))
        elif op == "trt":
            stats["roundtrips"] += 1
            seen_rt.add(hi)
            if r != "ok":
                fails.append(("roundtrip", hi, {"result": r}))
        elif op == "tdump":
            slots, free = parse_dump(r)
            stats["max_slots"] = max(stats["max_slots"], len(slots))
            why = structure_ok(slots, free, len(alpha) + 1)
            if why:
                fails.append(("structure", hi, {"alphabet": "".join(alpha), "alphabet_size": len(alpha), "invariant": why}))
            prev = last_dump.get(hi)
            if prev is not None:
                pslots = prev
                if any(i < len(slots) and pslots[i][1] >= 0 and slots[i][1] < 0 for i in range(len(pslots))):
                    stats["relocations"] += 1
                    relocating.add(hi)
            last_dump[hi] = slots
        elif op == "tq":
            stats["lookups"] += 1
            present = r.startswith("some")
            should = a in inserted
            if present != should:
                hist_keys = [x for o, x in ops if o == "tins"]
                fails.append(("exact-set", hi, {"alphabet": "".join(alpha), "alphabet_size": len(alpha), "inserted_in_order": hist_keys[:60], "lookup": a,
                                                "reported_present": present, "was_inserted": should,
                                                "roundtrip_in_history": hi in seen_rt}))
    seen = set()
    for kind, hi, w in fails:
        if (kind, hi) in seen:
            continue
        seen.add((kind, hi))
        if len(seen) > 10:
            break
        run.failures.append(cl.Failure("oracle", "trie violates C04 (%s): %s" % (kind, json.dumps(w, ensure_ascii=False)[:300]),
                                       witness=w, key={"kind": kind}))
    if dis and not fails:
        run.failures.append(cl.Failure("correspondence", "model Chokan.Model.Trie and libs/trie disagree on %d replies, e.g. %s"
                                       % (len(dis), json.dumps(dis[0], ensure_ascii=False)[:400]), detail=json.dumps(dis[:3], ensure_ascii=False)))
    run.cov["model_disagreements"] = len(dis)
    run.cov.update({
        "evaluations": len(lines),
        "distinct_nontrivial": len(relocating),
        "rule": "histories = (alphabet of 1–12 or 250–254 chars, 1–40 (thorough: up to 400) insertions mixing the empty key, extensions and "
                "prefixes of earlier keys, duplicates, long runs of one letter, rejected keys, clone+postcard round trips at random "
                "points), then lookups of every inserted key, every proper prefix, one-character extensions and random strings. "
                "non-trivial = history in which at least one insertion relocated nodes (a used slot became free); distinct by history",
        "samples": [{"alphabet": "".join(h[0])[:20], "ops": [o for o in h[1] if o[0] in ("tins", "trt")][:12]} for h in hists[2:4]],
        "histogram": stats, "oracle_failures": len(fails),
    })
