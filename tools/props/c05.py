"""C05 — no request history can wedge, poison or kill the conversion server."""
import json
import os

import checklib as cl
from props import server_common as S

PROBES = [("normal", "くるまで"), ("normal", "しんかこか"), ("proper", "やまだ"), ("normal", "こーひー"),
          # texts that exist only when a learned compound is one word of the running dictionary (suffix does not follow suffix)
          ("normal", "かこかてき"), ("normal", "しんかこかてき"), ("normal", "やまかてき")]
ODD_INPUTS = ["", " ", "くるま", "クルマ", "kuruま", "車", "😀くるま", "くるま\n", "\t", "ー", "っ", "んんん", "a" * 50,
              "くるま" * 30, "あ" * 400, "くるまで　は", "゙か", "ｱｲｳ", "0123", "くるまではしらなかった"]
ODD_WORDS = [("しない", "しない"), ("あ", "かない"), ("", ""), ("たべない", "食べない"), ("きたない", "汚い"), ("a", "高い"),
             ("こーひー", "珈琲"), ("カタカナ", "片仮名"), ("たかい", "高い"), ("しずかだ", "静かだ"), ("ab", "あい"),
             ("くるま", "車 両"), ("くるま", "車\t両"), ("べんきょうしない", "勉強しない"), ("x" * 300, "長" * 300)]


def gen_history(rng, thorough):
    n = 6 + rng.below(18 if thorough else 8)
    h = []
    for _ in range(n):
        k = rng.below(12)
        if k <= 2:
            h.append(("conv", rng.pick(["normal", "proper", "foreign", "numeral"]), rng.pick(ODD_INPUTS)))
        elif k == 3:
            h.append(("tankan", rng.pick(ODD_INPUTS)))
        elif k == 4:
            h.append(("alpha", rng.pick(ODD_INPUTS + ["あっ", "っっ", "きゃっt"])))
        elif k <= 6:
            rd, w = rng.pick(ODD_WORDS)
            h.append(("register", rng.pick(["Guess", "CommonNoun", "ProperNoun"]), rd, w))
        elif k <= 8:
            h.append(("confirm", rng.pick(["last", "first", "unknown", "again"]), rng.pick(["0", "1", "2", "99", "-1", "x", ""])))
        elif k == 9:
            h.append(("malformed", rng.pick([
                ("GetCandidates", {}), ("GetCandidates", {"input": 5}), ("GetCandidates", {"input": "くるま", "context": {"kind": "Bogus"}}),
                ("GetCandidates", {"input": "くるま", "context": {}}), ("GetCandidates", ["くるま"]), ("UpdateFrequency", {"session_id": 1}),
                ("RegisterWord", {"kind": "Nope", "reading": "あ", "word": "亜"}), ("RegisterWord", {"reading": "あ"}),
                ("NoSuchMethod", {}), ("GetTankanCandidates", None), ("GetAlphabeticCandidate", {"input": None})])))
        elif k == 10:
            h.append(("conv", "normal", "".join(rng.pick("くるまでしんかこやだ") for _ in range(1 + rng.below(10)))))
        else:
            h.append(("probe",))
    return h


def run_history(run, bindir, dic, wd, tag, hist, fails, stats):
    r = S.HistoryRunner(run, bindir, dic, wd, tag)
    if not r.start():
        fails.append(("start", {"kind": "start"}, {"history": hist, "result": "server did not start"}))
        return r
    now = 1000
    n_entries = 0
    trace = []
    try:
        for op in hist:
            trace.append(list(op))
            if op[0] == "conv":
                res = r.conv(op[1], op[2])
                last_texts = S.texts(res) or []
                last_conv_session = len(r.sids) - 1
                if res[0] == "timeout":
                    fails.append(("unanswered", {"kind": "unanswered", "request": "conversion"},
                                  {"history": trace, "request": list(op), "result": "no answer within 5 s"}))
                    break
            elif op[0] == "tankan":
                r.tankan(op[1])
            elif op[0] == "alpha":
                r.alpha(op[1])
            elif op[0] == "register":
                res = r.register(op[1], op[2], op[3])
                if res[0] == "ok":
                    n_entries += 1
                    r.settle(n_entries)
                elif res[0] == "timeout":
                    fails.append(("unanswered", {"kind": "unanswered", "request": "RegisterWord"}, {"history": trace}))
                    break
            elif op[0] == "confirm":
                now += 10
                if op[1] == "unknown" or not r.sids:
                    r.confirm(None, op[2], now, raw_sid="00000000-0000-0000-0000-000000000000")
                else:
                    idx = len(r.sids) - 1 if op[1] in ("last", "again") else 0
                    cid = op[2]
                    if cid.startswith("text:"):     # the candidate with this text in the answer of the latest `conv` op
                        cid = str(last_texts.index(cid[5:])) if cid[5:] in last_texts else "0"
                        idx = last_conv_session
                    r.confirm(idx, cid, now)
                d = r.srv.dump()
                if d is not None and len(d["user_entries"]) > n_entries:
                    n_entries = len(d["user_entries"])
                    r.settle(n_entries)
            elif op[0] == "malformed":
                st, _ = r.srv.rpc(op[1][0], op[1][1])
                stats["malformed"] += 1
                if st == "timeout":
                    fails.append(("unanswered", {"kind": "unanswered", "request": "malformed"}, {"history": trace}))
                    break
            elif op[0] == "probe":
                pass
            # after every request: a well-formed conversion must still be answered, and no lock may be poisoned
            res = r.conv(*PROBES[0])
            stats["probes"] += 1
            if res[0] != "ok":
                fails.append(("wedged", {"kind": "wedged"}, {"history": trace, "probe": PROBES[0][1], "result": res[0]}))
                break
            d = r.srv.dump()
            if d is None or d["poisoned"]:
                fails.append(("poisoned", {"kind": "poisoned"}, {"history": trace, "poisoned": d and d["poisoned"]}))
                break
            if not r.srv.alive():
                fails.append(("died", {"kind": "died"}, {"history": trace}))
                break
        else:
            # end of history: full probes, dump, restart on the same directory, probes again (same answers)
            before = [S.texts(r.conv(c, i)) for c, i in PROBES]
            dmp = r.dump()
            if not r.restart():
                fails.append(("restart", {"kind": "restart"}, {"history": trace, "result": "the server did not start again on the user data it wrote"}))
            else:
                stats["restarts"] += 1
                after = [S.texts(r.conv(c, i)) for c, i in PROBES]
                r.dump()
                if before != after:
                    # a guessed entry whose stem (or stem reading) is empty prints a line the text format rejects (D8)
                    empty_stem = dmp is not None and any(e.startswith("\t") or "\t\t" in e for e in dmp["user_entries"])
                    key = {"kind": "differs-after-restart", "cause": "entry-with-empty-stem"} if empty_stem else \
                          {"kind": "differs-after-restart"}
                    fails.append(("differs-after-restart", key, {"history": trace, "before": before, "after": after,
                                                                  "user_entries": dmp and dmp["user_entries"]}))
    finally:
        r.stop()
    slow = max([t for _, t in r.slow] or [0])
    stats["max_latency_s"] = max(stats["max_latency_s"], slow)
    return r


def run(run, replay=None):
    run.assumptions += ["requests are atomic steps of the model; a handler panic closes the connection (jsonrpsee/tokio not modelled)",
                        "'answered in bounded time' is observed with a 5 s deadline per request, not proved (partial)"]
    run.regenerate(["Kkc", "Dic", "DicGrammar", "Server", "KanaAlpha"])
    if run.build_props():
        run.audit()
    S.conc_check(run)
    bindir = S.build_binaries(run)
    if bindir is None:
        return
    wd = S.workdir("c05")
    dic = S.make_dictionary(bindir, wd)
    if dic is None:
        run.failures.append(cl.Failure("infra", "chokan-dic failed on the check's source dictionaries"))
        return
    rng = cl.Rng(run.seed)
    thorough = run.tier == "thorough"
    fixed = [
        [("conv", "normal", ""), ("probe",)],                                         # D1
        [("register", "Guess", "しない", "しない"), ("probe",)],                        # D2
        [("register", "Guess", "べんきょうしない", "勉強しない"), ("conv", "normal", "べんきょうし")],
        [("register", "CommonNoun", "こーひー", "珈琲"), ("conv", "normal", "こーひー")],   # D7
        [("register", "Guess", "あ", "かない"), ("probe",)],
        [("conv", "normal", "しんかこか"), ("confirm", "last", "1"), ("conv", "normal", "しんかこ")],
        [("conv", "normal", "かこか"), ("confirm", "last", "text:過去化"), ("conv", "normal", "かこかてき"), ("probe",)],
        [("conv", "normal", "やまか"), ("confirm", "last", "text:山化"), ("conv", "normal", "やまかてき"), ("probe",)],
    ]
    # readings the user dictionary can store (text-format reading class) but the conversion trie cannot index: accepted,
    # saved, and the server must still start on that user data
    import re as _re
    _m = _re.search(r"def alphabet : List Nat := \[([0-9, ]*)\]", open(os.path.join(cl.LEAN, "Chokan/Gen/Server.lean")).read())
    alpha = {int(x) for x in _m.group(1).split(",")} if _m else set()
    klass = [c for c in range(0x3041, 0x3097)] + [0x30FC] + list(range(ord("a"), ord("z") + 1))
    outside = [chr(c) for c in klass if alpha and c not in alpha] or ["ゎ", "ゔ", "ゕ"]
    fixed.append([op for ch in outside[:6] for op in (("register", rng.pick(["CommonNoun", "ProperNoun", "Guess"]), "く" + ch + "じ", "火事"),
                                                       ("conv", "normal", "く" + ch + "じ"))] + [("probe",)])
    hists = fixed + [gen_history(rng, thorough) for _ in range(60 if thorough else 10)]
    fails = []
    stats = {"histories": len(hists), "probes": 0, "restarts": 0, "malformed": 0, "max_latency_s": 0.0}
    runners = []
    for i, h in enumerate(hists):
        runners.append(run_history(run, bindir, dic, wd, "h%d" % i, h, fails, stats))
    # histories of several connections at once (requests of one connection are still sent one after the other)
    for ci in range(3 if thorough else 1):
        obs, probs = S.concurrent_phase(bindir, dic, wd, "conc%d" % ci, seconds=2.0, clients=4 + 4 * ci,
                                        env={"CHOKAN_VERIF_DELAY_CONV_LOCK2": "1"} if ci % 2 else None)
        stats.setdefault("concurrent_pairs", 0)
        stats["concurrent_pairs"] += obs["pairs"]
        for kind, what in probs[:1]:
            fails.append((kind, {"kind": kind, "phase": "concurrent"},
                          {"history": "%d connections sending GetCandidates + UpdateFrequency pairs" % obs["clients"], "result": what, "completed_pairs": obs["pairs"]}))
    dis = S.compare_with_model(run, runners)
    run.cov["model_disagreements"] = len(dis)
    seen = set()
    for kind, key, w in fails:
        k = json.dumps(key, sort_keys=True, ensure_ascii=False)
        if k in seen:
            continue
        seen.add(k)
        run.failures.append(cl.Failure("oracle", "server violates C05 (%s): %s" % (kind, json.dumps(w, ensure_ascii=False)[:300]),
                                       witness=w, key=key))
    if dis and not fails:
        run.failures.append(cl.Failure("correspondence", "model Chokan.Model.Server and the real server disagree on %d replies, e.g. %s"
                                       % (len(dis), json.dumps(dis[0], ensure_ascii=False)[:500]), detail=json.dumps(dis[:3], ensure_ascii=False)))
    nreq = sum(len(r.ops) for r in runners)
    run.cov.update({
        "evaluations": nreq,
        "distinct_nontrivial": len({json.dumps(h, ensure_ascii=False) for h in hists if any(o[0] in ("register", "confirm") for o in h)}),
        "rule": "history = 6–24 requests over the six RPC methods with adversarial parameters (empty / non-kana / very long inputs, "
                "every RegisterWord kind with consistent and inconsistent pairs, unknown/repeated session ids, malformed JSON "
                "params, unknown methods), a probe conversion + Verif.Dump after every request, then a restart on the same user "
                "directory and the probes again. non-trivial = history with at least one state-changing request; distinct by history",
        "samples": [hists[0], hists[len(fixed)]],
        "histogram": stats, "oracle_failures": len(fails),
    })
    import shutil
    shutil.rmtree(wd, ignore_errors=True)
