"""C06 — a confirmation updates exactly one learned count, and learning only re-ranks.
Library part: re-ranking (kkc) — the server part (sessions, expiry, single use) is in props/server_common.py."""
from props import kkc_common as K


def lib_part(run, fails, stats):
    results, dis, cases = K.run_cases(run)
    if results is None:
        return None, None, None
    for r in results:
        c = r.case
        if r.learned is None:
            continue
        K.history_oracles(r, fails, stats)
        counts = {}
        for ctx, s, k in c.freq:
            counts[(ctx, s)] = k
        for ctx in K.CTXS:
            b, l = r.base[ctx], r.learned[ctx]
            if b["all"] is None or l["all"] is None:
                continue
            stats["rerank_pairs"] += 1
            if {cd["text"] for cd in b["all"]} != {cd["text"] for cd in l["all"]}:
                fails.append(("set-changed", {"kind": "set-changed"},
                              dict(c.describe(), context=ctx, without=sorted(cd["text"] for cd in b["all"]),
                                   with_counts=sorted(cd["text"] for cd in l["all"]))))
            surf = K.surface_of(b["lattice"])
            kinds = {n["id"]: n["kind"] for p in b["lattice"] or [] for n in p}
            eb = {(p, n): (e, ns) for p, n, e, ns in b["edges"] or []}
            for p, n, e, ns in l["edges"] or []:
                stats["score_pairs"] += 1
                e0, ns0 = eb.get((p, n), (None, None))
                bonus = counts.get((ctx, surf.get(n, "")), 0) if kinds.get(n) == "word" else 0
                if e0 != e or ns0 is None or ns != ns0 + bonus:
                    fails.append(("score-rise", {"kind": "score-rise"},
                                  dict(c.describe(), context=ctx, node=n, without=[e0, ns0], with_counts=[e, ns], expected_rise=bonus)))
                    break
            # context isolation: when no count is registered for this context the answers are identical
            if not any(cx == ctx for cx, _, _ in c.freq):
                stats["isolation_pairs"] += 1
                if b["raw"][2:4] != l["raw"][2:4] or b["raw"][1] != l["raw"][1]:
                    fails.append(("context-leak", {"kind": "context-leak"}, dict(c.describe(), context=ctx)))
    return results, dis, cases


def run(run, replay=None):
    from props import server_common as S
    run.assumptions += ["counts < 2^63 and path scores < 2^31", "server part: see tools/props/server_common.py"]
    run.regenerate(["Kkc", "Dic", "Server"])
    if run.build_props():
        run.audit()
    fails = []
    stats = {"rerank_pairs": 0, "score_pairs": 0, "isolation_pairs": 0}
    results, dis, cases = lib_part(run, fails, stats)
    if results is None:
        return
    K.coverage(run, results, cases)
    S.c06_part(run, fails, stats)
    run.cov["oracle_checks"] = stats
    K.report(run, "C06", fails, dis, "lattice/edges/candidates")
