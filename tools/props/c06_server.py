"""C06, server part: a confirmation updates exactly one count; sessions are single-use; expiry boundary."""
import json
import shutil

import checklib as cl
from props import server_common as S

EXP = 3 * 24 * 60 * 60 * 1000


def counts(d):
    return {(c.split("kind: ")[1].rstrip(" }"), w): (n, last) for c, w, n, last in d["frequencies"]}


def run_part(run, fails, stats):
    bindir = S.build_binaries(run)
    if bindir is None:
        return
    wd = S.workdir("c06")
    dic = S.make_dictionary(bindir, wd)
    rng = cl.Rng(run.seed + 6)
    thorough = run.tier == "thorough"
    runners = []
    stats.update({"confirmations": 0, "stale_or_unknown": 0, "expiry_probes": 0})
    inputs = ["くるまで", "やまだ", "しんかこか", "ほん", "たかい", "きやま"]
    ctxs = ["normal", "proper", "foreign", "numeral"]
    ctxname = {"normal": "Normal", "proper": "Proper", "foreign": "ForeignWord", "numeral": "Numeral"}
    for hi in range(12 if thorough else 4):
        r = S.HistoryRunner(run, bindir, dic, wd, "h%d" % hi)
        runners.append(r)
        if not r.start():
            fails.append(("start", {"kind": "start"}, {"result": "server did not start"}))
            continue
        now = 10_000_000
        sessions = []   # (index, ctx, candidates texts, used)
        spec = {}       # the property's own bookkeeping: key -> [count, time of the latest confirmation]
        try:
            if hi == 0:
                # directed: a count refreshed two days ago must survive a confirmation four days after it was first learned
                day = 86_400_000
                for dt, inp in ((0, "くるまで"), (2 * day, "くるまで"), (4 * day, "やまだ")):
                    res = r.conv("normal", inp)
                    if res[0] == "ok" and res[1]["candidates"]:
                        r.confirm(len(r.sids) - 1, "0", now + dt)
                        stats["confirmations"] += 1
                d = r.srv.dump()
                got = {w: n for _, w, n, _ in (d or {"frequencies": []})["frequencies"]}
                if got.get("車") != 2:
                    fails.append(("dropped-fresh", {"kind": "dropped-fresh"},
                                  {"history": "confirm 車 at t0 and t0+2d, confirm 山田 at t0+4d", "expected_count_of_車": 2,
                                   "frequencies": d and d["frequencies"]}))
                r.dump()
                now += 4 * day
                for _, w, n, last in (d or {"frequencies": []})["frequencies"]:
                    pass
            for step in range(30 if thorough else 14):
                k = rng.below(10)
                before = r.srv.dump()
                if k <= 3 or not sessions:
                    ctx = rng.pick(ctxs)
                    res = r.conv(ctx, rng.pick(inputs))
                    if res[0] == "ok":
                        sessions.append([len(r.sids) - 1, ctx, res[1]["candidates"], False])
                    continue
                # time moves: sometimes exactly to / just past the expiry boundary of the oldest entry
                if before and before["frequencies"] and rng.chance(1, 3):
                    oldest = min(last for _, _, _, last in before["frequencies"])
                    now = max(now, oldest + EXP + rng.pick([-1, 0, 1]))
                    stats["expiry_probes"] += 1
                else:
                    now += rng.pick([1, 1000, 3600_000, 86_400_000])
                if k <= 7:
                    s = rng.pick(sessions)
                    cid = str(rng.below(max(1, len(s[2]) + 1)))
                    if rng.chance(1, 4):
                        # ids the server never issued that a lenient look-up could still resolve (issued ids are "0", "1", …)
                        i0 = rng.below(max(1, len(s[2])))
                        cid = rng.pick(["+%d", "0%d", "00%d", " %d", "%d ", "%d.0", "-%d", "0x%d", "%d\n"]) % i0 \
                            if rng.chance(5, 6) else rng.pick(["abc", "", "１", "18446744073709551616"])
                    r.confirm(s[0], cid, now)
                    after = r.srv.dump()
                    stats["confirmations"] += 1
                    b, a = counts(before), counts(after)
                    canonical = cid.isdigit() and cid.isascii() and (cid == "0" or not cid.startswith("0")) and len(cid) < 9
                    valid = (not s[3]) and canonical and int(cid) < len(s[2])
                    s[3] = True
                    changed = {key for key in set(a) | set(b) if a.get(key, (0, 0))[0] != b.get(key, (0, 0))[0]}
                    # allowed changes: +1 on exactly one key of the session's context, and drops of stale entries
                    ups = [key for key in changed if a.get(key, (0, 0))[0] == b.get(key, (0, 0))[0] + 1]
                    drops = [key for key in changed if key not in a]
                    other = [key for key in changed if key not in ups and key not in drops]
                    w = {"history_step": step, "session_context": s[1], "candidate_id": cid, "candidates": [c["candidate"] for c in s[2]],
                         "now": now, "before": before["frequencies"], "after": after["frequencies"]}
                    # independent bookkeeping of the time of the latest confirmation per key
                    for key in list(spec):
                        if key not in b:
                            del spec[key]
                    if len(ups) == 1:
                        spec[ups[0]] = now
                    for key in drops:
                        last_use = spec.get(key, b[key][1])
                        if not (now - last_use > EXP):
                            fails.append(("dropped-fresh", {"kind": "dropped-fresh"}, dict(w, dropped=list(key), last_confirmed_at=last_use)))
                    if other or len(ups) > 1:
                        fails.append(("other-count-changed", {"kind": "other-count-changed"}, w))
                    if not valid and (ups or drops):
                        fails.append(("stale-confirmation-changed-counts", {"kind": "stale-confirmation-changed-counts"}, w))
                    if valid and ups and ups[0][0] != ctxname[s[1]]:
                        fails.append(("wrong-context", {"kind": "wrong-context"}, w))
                    for key in drops:
                        if not (now - b[key][1] > EXP):
                            fails.append(("dropped-fresh", {"kind": "dropped-fresh"}, dict(w, dropped=list(key))))
                    if ups:
                        for key in b:
                            if key != ups[0] and key in a and (now - b[key][1] > EXP):
                                fails.append(("kept-stale", {"kind": "kept-stale"}, dict(w, kept=list(key))))
                else:
                    stats["stale_or_unknown"] += 1
                    r.confirm(None, rng.pick(["0", "1"]), now, raw_sid="no-such-session-%d" % step)
                    after = r.srv.dump()
                    if before and after and before["frequencies"] != after["frequencies"]:
                        fails.append(("unknown-session-changed-counts", {"kind": "unknown-session-changed-counts"},
                                      {"before": before["frequencies"], "after": after["frequencies"]}))
                r.dump()
            # directed: a fresh session confirmed with an id the server never issued (issued ids are exactly "0", "1", …)
            for fmt in ["+%d", "0%d", "00%d", " %d", "%d ", "%d.0", "-%d", "0x%d", "１", "abc", ""]:
                res = r.conv(rng.pick(ctxs), rng.pick(inputs))
                if res[0] != "ok" or not res[1]["candidates"]:
                    continue
                i0 = rng.below(len(res[1]["candidates"]))
                cid = fmt % i0 if "%d" in fmt else fmt
                before = r.srv.dump()
                now += 1
                r.confirm(len(r.sids) - 1, cid, now)
                after = r.srv.dump()
                stats["stale_or_unknown"] += 1
                if before and after and counts(before) != counts(after):
                    fails.append(("unknown-candidate-changed-counts", {"kind": "unknown-candidate-changed-counts"},
                                  {"candidate_id": cid, "issued_ids": [c["id"] for c in res[1]["candidates"]],
                                   "before": before["frequencies"], "after": after["frequencies"]}))
            r.dump()
        finally:
            r.stop()
    # directed: expiry must not depend on what the process remembers — a count learned before a restart and not refreshed for
    # three days is dropped at the first confirmation after the restart
    r = S.HistoryRunner(run, bindir, dic, wd, "hx")
    runners.append(r)
    if r.start():
        try:
            t0 = 50_000_000
            res = r.conv("normal", "くるまで")
            if res[0] == "ok" and res[1]["candidates"]:
                r.confirm(len(r.sids) - 1, "0", t0)
                stats["confirmations"] += 1
            r.dump()
            if r.restart():
                res = r.conv("normal", "やまだ")
                if res[0] == "ok" and res[1]["candidates"]:
                    r.confirm(len(r.sids) - 1, "0", t0 + EXP + 1)
                    stats["confirmations"] += 1
                d = r.srv.dump()
                stats["expiry_probes"] += 1
                stale = [(c, w, n) for c, w, n, last in (d or {"frequencies": []})["frequencies"] if w == "車"]
                if stale:
                    fails.append(("kept-stale", {"kind": "kept-stale", "after": "restart"},
                                  {"history": "confirm 車 at t0, save, restart, confirm 山田 at t0 + 3 days + 1 ms",
                                   "frequencies": d and d["frequencies"]}))
                r.dump()
        finally:
            r.stop()
    dis = S.compare_with_model(run, runners)
    run.cov["server_model_disagreements"] = len(dis)
    if dis and not fails:
        run.failures.append(cl.Failure("correspondence", "model Chokan.Model.Server and the real server disagree on %d replies, e.g. %s"
                                       % (len(dis), json.dumps(dis[0], ensure_ascii=False)[:500]), detail=json.dumps(dis[:3], ensure_ascii=False)))
    shutil.rmtree(wd, ignore_errors=True)
