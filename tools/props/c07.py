"""C07 — a registered word becomes convertible, for every kind and every well-formed pair."""
import json
import shutil

import checklib as cl
from props import common
from props import server_common as S

HIRA = [chr(c) for c in range(0x3041, 0x3094)]


def run(run, replay=None):
    run.assumptions += ["'within bounded time' = the updater task is scheduled: observed with a 3 s deadline, not proved (partial)",
                        "the expected conjugated forms of a registration are computed by the real dic crate (harness) and by the model"]
    run.regenerate(["Kkc", "Dic", "DicGrammar", "Server", "KanaAlpha"])
    if run.build_props():
        run.audit()
    bindir = S.build_binaries(run)
    if bindir is None:
        return
    rng = cl.Rng(run.seed + 7)
    thorough = run.tier == "thorough"
    # ---- model-independent, directed: verbs of one class registered one after the other in ONE server lifetime, in both orders;
    # the forms are reference data (the conjugation of 書く / 行く / 泳ぐ / 飲む / 勝つ as every grammar gives it), so this
    # phase decides even when the translator or the model no longer follows the code
    REF = {("かかない", "書かない"): [("かか", "書か"), ("かき", "書き"), ("かく", "書く"), ("かけ", "書け"), ("かこ", "書こ"), ("かい", "書い")],
           ("いかない", "行かない"): [("いか", "行か"), ("いき", "行き"), ("いく", "行く"), ("いけ", "行け"), ("いこ", "行こ"), ("いっ", "行っ")],
           ("およがない", "泳がない"): [("およが", "泳が"), ("およぎ", "泳ぎ"), ("およぐ", "泳ぐ"), ("およげ", "泳げ"), ("およご", "泳ご"), ("およい", "泳い")],
           ("のまない", "飲まない"): [("のま", "飲ま"), ("のみ", "飲み"), ("のむ", "飲む"), ("のめ", "飲め"), ("のも", "飲も"), ("のん", "飲ん")],
           ("かたない", "勝たない"): [("かた", "勝た"), ("かち", "勝ち"), ("かつ", "勝つ"), ("かて", "勝て"), ("かと", "勝と"), ("かっ", "勝っ")],
           ("あいがない", "相がない"): [("あいが", "相が"), ("あいぎ", "相ぎ"), ("あいぐ", "相ぐ"), ("あいげ", "相げ"), ("あいご", "相ご"), ("あいい", "相い")]}
    wd0 = S.workdir("c07ref")
    dic0 = S.make_dictionary(bindir, wd0)
    ref_fails = []
    orders = [list(REF), list(reversed(list(REF)))]
    ref_checked = 0
    for order in orders:
        srv0 = S.Server(bindir, dic0, None, workers=4)
        try:
            if not srv0.wait_listening():
                continue
            done = []
            for rd_, w_ in order:
                if srv0.rpc("RegisterWord", {"kind": "Guess", "reading": rd_, "word": w_})[0] != "ok":
                    continue
                done.append((rd_, w_))
                S.wait_until(lambda: (lambda d_: d_ is not None and len(d_["user_entries"]) >= len(done))(srv0.dump()), 4.0)
            for rd_, w_ in done:
                for frd, fw in REF[(rd_, w_)]:
                    ref_checked += 1
                    got = S.wait_until(lambda: (lambda t: t if t is not None and fw in t else None)(S.texts(srv0.conv(frd))), 2.0)
                    if got is None:
                        ref_fails.append(("not-convertible", {"kind": "not-convertible", "phase": "reference-forms"},
                                          {"registered_in_order": [list(x) for x in done], "registration": ["Guess", rd_, w_],
                                           "form": [fw, frd], "candidates": S.texts(srv0.conv(frd))}))
                        break
        finally:
            srv0.stop()
    shutil.rmtree(wd0, ignore_errors=True)
    for kind_, key_, w__ in ref_fails[:2]:
        run.failures.append(cl.Failure("oracle", "server violates C07 (%s): %s" % (kind_, json.dumps(w__, ensure_ascii=False)[:300]), witness=w__, key=key_))
    run.cov["reference_forms_checked"] = ref_checked
    # registrations: every ending the guesser recognises + adjectives + nouns, stems with kanji
    regs = []
    stems = [("書", "か"), ("試", "ため"), ("食", "た"), ("高", "たか"), ("静", "しず"), ("勉強", "べんきょう"), ("珈", "こー")]
    endings = [h + "ない" for h in HIRA] + ["い", "だ", "くない", "", "る"]
    for e in endings if thorough else [rng.pick(endings) for _ in range(18)] + ["しない", "かない", "べない", "い", "だ", ""]:
        st, sr = rng.pick(stems)
        regs.append(("Guess", sr + e, st + e))
    # stem readings that themselves end in the ending the guesser strips (可愛い, 無駄だ, …)
    regs += [("Guess", "かわいい", "可愛い"), ("Guess", "むだだ", "無駄だ"), ("Guess", "かないかない", "叶井かない"),
             ("Guess", "いい", "良い"), ("Guess", "だだだ", "駄々だ")]
    for _ in range(30 if thorough else 6):
        st, sr = rng.pick(stems)
        rd = sr + "".join(rng.pick("あいうえおかきくけこーabc") for _ in range(rng.below(3)))
        regs.append((rng.pick(["CommonNoun", "ProperNoun"]), rd, st + rng.pick(["", "々", "X", "/", ";"])))
    # expected words of each registration from the real dic crate (and the model)
    lines = []
    for kind, rd, w in regs:
        if kind == "Guess":
            lines.append("guessedwords %s | %s" % (cl.cps(rd), cl.cps(w)))
        else:
            lines.append("words %s | %s | %s" % ("N.common" if kind == "CommonNoun" else "N.proper", cl.cps(rd), cl.cps(w)))
    impl, model = common.run_both(run, lines, "expected words")
    if impl is None:
        return
    dis = common.diff(run, lines, impl, model, "expected words")
    wd = S.workdir("c07")
    dic = S.make_dictionary(bindir, wd)
    fails = []
    stats = {"registrations": 0, "refused": 0, "forms_checked": 0, "monotone_checks": 0}
    r = S.HistoryRunner(run, bindir, dic, wd, "h0")
    runners = [r]
    if not r.start():
        run.failures.append(cl.Failure("infra", "server did not start"))
        return
    sample_inputs = ["くるまで", "しんかこか", "やまだ", "かか", "たべ", "たかい"]
    try:
        n_entries = 0
        # the forms a registration must make available are those of the model (equal to the dic crate's on the unchanged tree)
        for (kind, rd, w), exp in zip(regs, model if model is not None and len(model) == len(regs) else impl):
            before = {i: set(S.texts(r.conv("normal", i)) or []) for i in sample_inputs[:3]}
            res = r.register(kind, rd, w)
            stats["registrations"] += 1
            if res[0] != "ok":
                stats["refused"] += 1
                continue
            n_entries += 1
            r.settle(n_entries)
            forms = None
            if exp.startswith("ok"):
                body = exp[2:].strip()
                forms = [] if not body else [(cl.from_cps(x.split(" : ")[0]), cl.from_cps(x.split(" : ")[1]), x.split(" : ")[2])
                                             for x in body.split(" ; ")]
            if forms is None:
                fails.append(("accepted-but-unconjugable", {"kind": "accepted-but-unconjugable"}, {"kind": kind, "reading": rd, "word": w}))
                continue
            for form_word, form_rd, _sp in forms:
                if not form_rd or not all(c in S_ALPHA for c in form_rd):
                    continue
                stats["forms_checked"] += 1
                got = S.wait_until(lambda: (lambda t: t if t is not None and form_word in t else None)(S.texts(r.conv("normal", form_rd))), 3.0)
                if got is None:
                    fails.append(("not-convertible", {"kind": "not-convertible", "registration": kind},
                                  {"kind": kind, "reading": rd, "word": w, "form": [form_word, form_rd],
                                   "candidates": S.texts(r.srv.conv(form_rd))}))
            for i in before:
                stats["monotone_checks"] += 1
                after = set(S.texts(r.conv("normal", i)) or [])
                if not before[i] <= after:
                    fails.append(("lost-candidate", {"kind": "lost-candidate"},
                                  {"after_registering": [kind, rd, w], "input": i, "lost": sorted(before[i] - after)}))
        r.dump()
    finally:
        r.stop()
    # registrations interleaved with conversions of other clients
    obs, probs = S.concurrent_phase(bindir, dic, wd, "conc", seconds=0.5, clients=4, registrations=40 if thorough else 15,
                                    env={"CHOKAN_VERIF_DELAY_CONV_LOCK2": "2"})
    stats["concurrent_registrations"] = obs["registrations"]
    for kind, what in probs[:1]:
        fails.append((kind, {"kind": kind, "phase": "concurrent"},
                      {"history": "RegisterWord while 4 other connections convert and confirm", "result": what, "registrations_applied": obs["registrations"]}))
    # homophones of one kind queued back to back while the updater is busy: each acknowledged registration must be applied
    import time as _time
    srvq = S.Server(bindir, dic, None, workers=4, env={"CHOKAN_VERIF_DELAY_UPDATER": "150"})
    try:
        if srvq.wait_listening():
            sent = []
            for rd, words, kind in [("こうえん", ["公園", "講演", "公演", "後援"], "CommonNoun"), ("きかん", ["機関", "期間", "器官"], "CommonNoun"),
                                    ("さとう", ["佐藤", "左藤"], "ProperNoun"), ("かえない", ["買えない", "飼えない", "変えない"], "Guess")]:
                for wd_ in words:
                    if srvq.rpc("RegisterWord", {"kind": kind, "reading": rd, "word": wd_})[0] == "ok":
                        sent.append((kind, rd, wd_))
            stats["queued_homophones"] = len(sent)
            S.wait_until(lambda: (lambda d: d is not None and len(d["user_entries"]) >= len(sent))(srvq.dump()), 8.0)
            _time.sleep(0.3)
            for kind, rd, wd_ in sent:
                probe_rd = rd if kind != "Guess" else rd[:-2]
                probe_w = wd_ if kind != "Guess" else wd_[:-2]
                got = S.texts(srvq.conv(probe_rd)) or []
                if not any(t.startswith(probe_w) for t in got):
                    dmp = srvq.dump()
                    fails.append(("not-convertible", {"kind": "not-convertible", "phase": "queued-homophones"},
                                  {"history": "homophones of one kind registered back to back while the updater is delayed",
                                   "registration": [kind, rd, wd_], "candidates": got, "user_entries": dmp and dmp["user_entries"]}))
                    break
    finally:
        srvq.stop()
    dis2 = S.compare_with_model(run, runners)
    run.cov["server_model_disagreements"] = len(dis2)
    seen = set()
    for kind, key, w in fails:
        k = json.dumps(key, sort_keys=True, ensure_ascii=False)
        if k in seen:
            continue
        seen.add(k)
        run.failures.append(cl.Failure("oracle", "server violates C07 (%s): %s" % (kind, json.dumps(w, ensure_ascii=False)[:300]), witness=w, key=key))
    if (dis or dis2) and not fails:
        d0 = (dis + dis2)[0]
        run.failures.append(cl.Failure("correspondence", "model and implementation disagree on %d replies, e.g. %s"
                                       % (len(dis) + len(dis2), json.dumps(d0, ensure_ascii=False)[:500])))
    run.cov.update({"evaluations": len(r.ops), "distinct_nontrivial": len(set(regs)),
                    "rule": "registrations: Guess with every kana+ない ending (thorough) / a sample (quick), い, だ, no ending; nouns of both kinds "
                            "with readings over the alphabet incl. ー and a–z and odd written forms; after each acknowledged registration "
                            "every conjugated form must be offered for its reading within 3 s and earlier candidates must remain. "
                            "distinct by (kind, reading, word)",
                    "samples": [list(x) for x in regs[:3]], "histogram": stats, "oracle_failures": len(fails)})
    shutil.rmtree(wd, ignore_errors=True)


S_ALPHA = "あいうえおかきくけこさしすせそたちつてとなにぬねのはひふへほまみむめもやゆよらりるれろわをんがぎぐげござじずぜぞだぢづでどばびぶべぼぱぴぷぺぽっぁぃぅぇぉゃゅょーゑゐabcdefghijklmnopqrstuvwxyz"
