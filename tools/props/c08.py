"""C08 — saved user data restores exactly; a restart does not change any answer."""
import json
import os
import shutil
import time

import checklib as cl
from props import server_common as S

INPUTS = ["くるまで", "しんかこか", "しんかこ", "やまだ", "たかい", "かか", "ためし", "こーひー", "ほん", "きやま", "おやま", "てすと", "じ", "こ"]
CTXS = ["normal", "proper", "foreign", "numeral"]
S_KANA = [chr(c) for c in range(0x3042, 0x3094)] + ["ー"]
REGS = [("Guess", "かかない", "書かない"), ("Guess", "ためさない", "試さない"), ("Guess", "たべない", "食べない"), ("Guess", "たかい", "高い"),
        ("Guess", "しずかだ", "静かだ"), ("Guess", "べんきょうしない", "勉強しない"), ("Guess", "てすと", "試験"),
        ("CommonNoun", "こーひー", "珈琲"), ("CommonNoun", "てすと", "試験"), ("ProperNoun", "やまだ", "山駄"), ("CommonNoun", "abc", "ＡＢＣ"),
        ("ProperNoun", "おやま", "小山"), ("CommonNoun", "くるま", "来馬"), ("Guess", "みない", "見ない"), ("Guess", "きない", "着ない")]


SAME_SURFACE_OTHER_SPEECH = [("ProperNoun", "おやま", "小山"), ("CommonNoun", "やまだ", "山駄"), ("ProperNoun", "やまだ", "山駄"),
                             ("ProperNoun", "くるま", "来馬"), ("CommonNoun", "くるま", "来馬"), ("ProperNoun", "ほん", "本")]

PAST_FAILURE_D5B = [["confirm", "normal", "くるまで", "0", 91400000], ["register", "Guess", "ためさない", "試さない"], ["register", "Guess", "たかい", "高い"],
                    ["register", "CommonNoun", "てすと", "試験"], ["confirm", "proper", "きやま", "0", 91401000], ["confirm", "numeral", "てすと", "0", 91401001],
                    ["register", "Guess", "しずかだ", "静かだ"], ["confirm", "proper", "ためし", "0", 177801001], ["register", "Guess", "てすと", "試験"],
                    ["confirm", "normal", "くるまで", "0", 264201001], ["register", "Guess", "べんきょうしない", "勉強しない"],
                    ["confirm", "numeral", "きやま", "0", 350601001], ["register", "Guess", "てすと", "試験"], ["confirm", "normal", "しんかこか", "0", 437001001],
                    ["register", "CommonNoun", "くるま", "来馬"], ["register", "Guess", "かかない", "書かない"], ["register", "ProperNoun", "おやま", "小山"],
                    ["confirm", "foreign", "しんかこか", "3", 523401001], ["confirm", "numeral", "てすと", "0", 523402001]]


def probes(r):
    out = {}
    for ctx in CTXS:
        for i in INPUTS:
            res = r.srv.conv(i, S.CTX_KIND.get(ctx)) if ctx != "proper" else r.srv.conv(i, method="GetProperCandidates")
            out["%s/%s" % (ctx, i)] = S.texts(res)
    return out


def run(run, replay=None):
    run.assumptions += ["postcard / serde wire format of frequency.bin is modelled abstractly (decoded contents); the real files are "
                        "compared through Verif.Dump before and after the restart and byte-for-byte across a second save"]
    run.regenerate(["Kkc", "Dic", "DicGrammar", "Server", "KanaAlpha"])
    if run.build_props():
        run.audit()
    bindir = S.build_binaries(run)
    if bindir is None:
        return
    wd = S.workdir("c08")
    dic = S.make_dictionary(bindir, wd)
    rng = cl.Rng(run.seed + 8)
    thorough = run.tier == "thorough"
    fails = []
    runners = []
    stats = {"histories": 0, "registrations": 0, "confirmations": 0, "restarts": 0, "probe_pairs": 0}
    for hi in range(12 if thorough else 4):
        r = S.HistoryRunner(run, bindir, dic, wd, "h%d" % hi)
        runners.append(r)
        stats["histories"] += 1
        if not r.start():
            fails.append(("start", {"kind": "start"}, {}))
            continue
        trace = []
        try:
            n_entries = 0
            now = 5_000_000
            if hi == 0:
                # directed: in numeral context a counter that only the ancillary dictionary has is confirmed as non-first candidate
                res = r.conv("numeral", "じ")
                ts_ = S.texts(res) or []
                if res[0] == "ok" and len(ts_) >= 2:
                    r.confirm(len(r.sids) - 1, str(len(ts_) - 1), now + 1)
                    r.confirm(len(r.sids) - 1, "0", now + 2)            # consumed: no effect
                    res = r.conv("numeral", "じ")
                    r.confirm(len(r.sids) - 1, str((S.texts(res) or [""]).index(ts_[-1]) if ts_[-1] in (S.texts(res) or []) else 0), now + 3)
                    trace.append(["confirm", "numeral", "じ", ts_[-1], now + 3])
                    stats["confirmations"] += 2
            if hi == 1:
                # corpus: the history after which (before fix c5e9959) a restart flipped two equal-score candidates — the learned
                # compound 新過去化 was in user.dic twice (replay C08-4ced3a8c15 of the thorough tier)
                for st_ in PAST_FAILURE_D5B:
                    if st_[0] == "register":
                        res = r.register(*st_[1:])
                        trace.append(list(st_))
                        if res[0] == "ok":
                            n_entries += 1
                            r.settle(n_entries)
                    else:
                        _, ctx_, inp_, cid_, now_ = st_
                        res = r.conv(ctx_, inp_)
                        if res[0] == "ok" and res[1]["candidates"]:
                            r.confirm(len(r.sids) - 1, cid_, now_)
                            trace.append(list(st_))
                            d = r.srv.dump()
                            if d is not None and len(d["user_entries"]) > n_entries:
                                n_entries = len(d["user_entries"])
                                r.settle(n_entries)
                now = 600_000_000
            if hi == 2:
                # directed: a written form that the dictionary (or an earlier registration) already has under the reading, registered
                # with another part of speech — the two words differ only in what the proper-noun context adds to their score
                for reg in SAME_SURFACE_OTHER_SPEECH:
                    res = r.register(*reg)
                    trace.append(["register"] + list(reg))
                    stats["registrations"] += 1
                    if res[0] == "ok":
                        n_entries += 1
                        r.settle(n_entries)
            for step in range(20 if thorough else (10 if hi != 1 else 2)):
                if rng.chance(1, 2):
                    reg = rng.pick(REGS)
                    res = r.register(*reg)
                    trace.append(["register"] + list(reg))
                    stats["registrations"] += 1
                    if res[0] == "ok":
                        n_entries += 1
                        r.settle(n_entries)
                else:
                    ctx = rng.pick(CTXS)
                    inp = rng.pick(INPUTS)
                    res = r.conv(ctx, inp)
                    if res[0] == "ok" and res[1]["candidates"]:
                        now += rng.pick([1, 1000, 86_400_000])
                        cid = str(rng.below(len(res[1]["candidates"])))
                        r.confirm(len(r.sids) - 1, cid, now)
                        trace.append(["confirm", ctx, inp, cid, now])
                        stats["confirmations"] += 1
                        d = r.srv.dump()
                        if d is not None and len(d["user_entries"]) > n_entries:
                            n_entries = len(d["user_entries"])
                            r.settle(n_entries)
            before = probes(r)
            dump_before = r.dump()
            for round_ in (1, 2):
                if not r.restart():
                    fails.append(("restart", {"kind": "restart"}, {"history": trace}))
                    break
                stats["restarts"] += 1
                after = probes(r)
                dump_after = r.dump()
                stats["probe_pairs"] += len(before)
                diff = {k: [before[k], after[k]] for k in before if before[k] != after[k]}
                if diff:
                    k0 = sorted(diff)[0]
                    dup = dump_before is not None and len(set(dump_before["user_entries"])) != len(dump_before["user_entries"])
                    key = {"kind": "differs-after-restart", "cause": "duplicate-user-entry"} if dup else {"kind": "differs-after-restart"}
                    fails.append(("differs-after-restart", key,
                                  {"history": trace, "restart": round_, "probe": k0, "before": diff[k0][0], "after": diff[k0][1],
                                   "user_entries": dump_before and dump_before["user_entries"]}))
                    break
                if dump_before is not None and dump_after is not None and \
                   (dump_before["frequencies"] != dump_after["frequencies"] or dump_before["user_entries"] != dump_after["user_entries"]):
                    fails.append(("state-not-restored", {"kind": "state-not-restored"},
                                  {"history": trace, "restart": round_, "before": dump_before, "after": dump_after}))
                    break
                files1 = S.read_user_dir(r.userdir)
                if round_ == 2 and files0["user.dic"] != files1["user.dic"]:
                    fails.append(("save-not-idempotent", {"kind": "save-not-idempotent"}, {"history": trace}))
                files0 = files1
        finally:
            r.stop()
    # ---- registrations that are queued together (the updater is busy while they arrive): equal-score homophones must come back
    # ---- from the restart in the order the running server offered them ----------------------------------------------------
    ud = os.path.join(wd, "queued-user")
    os.makedirs(ud, exist_ok=True)
    srv = S.Server(bindir, dic, userdir=ud, save_secs=1, env={"CHOKAN_VERIF_DELAY_UPDATER": "250"})
    try:
        if not srv.wait_listening():
            fails.append(("start", {"kind": "start"}, {"scenario": "queued"}))
        else:
            regs = [("ぬぬ", "奴々", "CommonNoun")]           # keeps the updater busy while the others queue up
            for i, rd in enumerate(["ねのね", "ぬのの", "ねねぬ"]):
                for j in range(2 + (i % 2)):
                    regs.append((rd, "甲乙丙"[j] + "〇一二"[i], "CommonNoun"))
            history = []
            for rd, w, kind in regs:
                st_ = srv.rpc("RegisterWord", {"kind": kind, "reading": rd, "word": w})[0]
                history.append(["register", kind, rd, w, st_])
            stats["queued_registrations"] = len(regs)
            S.wait_until(lambda: (lambda d: d is not None and len(d["user_entries"]) >= len(regs))(srv.dump()), 30.0)
            # the last entry reaches the dictionary after the user dictionary: wait until it is offered
            S.wait_until(lambda: regs[-1][1] in (S.texts(srv.conv(regs[-1][0])) or []), 15.0)
            time.sleep(0.3)
            q_probes = sorted({rd for rd, _, _ in regs})
            q_before = {rd: S.texts(srv.conv(rd)) for rd in q_probes}
            time.sleep(2.5)                                     # two save ticks
            srv.stop()
            srv = S.Server(bindir, dic, userdir=ud, save_secs=1)
            if not srv.wait_listening():
                fails.append(("restart", {"kind": "restart"}, {"scenario": "queued"}))
            else:
                stats["restarts"] += 1
                q_after = {rd: S.texts(srv.conv(rd)) for rd in q_probes}
                stats["probe_pairs"] += len(q_probes)
                bad = [rd for rd in q_probes if q_before[rd] != q_after[rd]]
                if bad:
                    fails.append(("differs-after-restart", {"kind": "differs-after-restart", "scenario": "queued"},
                                  {"history": history + [["wait-applied"], ["probe"], ["save"], ["restart"], ["probe"]],
                                   "note": "the updater is delayed by 250 ms per entry (hook), so the registrations are queued together",
                                   "probe": bad[0], "before": q_before[bad[0]], "after": q_after[bad[0]]}))
    finally:
        srv.stop()
    # ---- a large user dictionary (tens of KiB on disk): every registered word must come back after a restart --------------
    bulk_n = 3000 if thorough else 1000
    ud = os.path.join(wd, "bulk-user")
    os.makedirs(ud, exist_ok=True)
    srv = S.Server(bindir, dic, userdir=ud, save_secs=1)
    try:
        if not srv.wait_listening():
            fails.append(("start", {"kind": "start"}, {"scenario": "bulk"}))
        else:
            kan = "亜唖娃阿哀愛挨姶逢葵茜穐悪握渥旭葦芦鯵梓圧斡扱宛姐虻飴絢綾鮎或粟袷安庵按暗案闇鞍杏"
            sent = []
            for i in range(bulk_n):
                rd = "".join(rng.pick(S_KANA) for _ in range(1 + rng.below(7)))
                w = "".join(rng.pick(kan) for _ in range(1 + rng.below(4))) + "".join("〇一二三四五六七八九"[int(ch)] for ch in str(i))
                kind = rng.pick(["CommonNoun", "ProperNoun", "CommonNoun"])
                if srv.rpc("RegisterWord", {"kind": kind, "reading": rd, "word": w})[0] == "ok":
                    sent.append((rd, w))
            stats["bulk_registrations"] = len(sent)
            S.wait_until(lambda: (lambda d: d is not None and len(d["user_entries"]) >= len(sent))(srv.dump()), 60.0)
            # the updater may still be applying entries on a loaded machine: wait until two dumps in a row agree
            d0 = srv.dump()
            for _ in range(40):
                time.sleep(1.0)
                d_next = srv.dump()
                if d_next is not None and d0 is not None and d_next["user_entries"] == d0["user_entries"]:
                    break
                d0 = d_next
            time.sleep(2.5)          # two save ticks
            size = os.path.getsize(os.path.join(ud, "user.dic")) if os.path.exists(os.path.join(ud, "user.dic")) else 0
            stats["bulk_user_dic_bytes"] = size
            srv.stop()
            srv = S.Server(bindir, dic, userdir=ud, save_secs=1)
            if not srv.wait_listening():
                fails.append(("restart", {"kind": "restart"}, {"scenario": "bulk"}))
            else:
                d1 = srv.dump()
                stats["restarts"] += 1
                if d0 is None or d1 is None or d0["user_entries"] != d1["user_entries"]:
                    a = (d0 or {}).get("user_entries", [])
                    b = (d1 or {}).get("user_entries", [])
                    lost = [e for e in a if e not in set(b)][:3]
                    odd = [e for e in b if e not in set(a)][:3]
                    fails.append(("bulk-not-restored", {"kind": "bulk-not-restored"},
                                  {"registered": len(sent), "user_dic_bytes": size, "entries_before": len(a), "entries_after": len(b),
                                   "lost": lost, "garbled": odd}))
    finally:
        srv.stop()
    dis = S.compare_with_model(run, runners)
    run.cov["model_disagreements"] = len(dis)
    seen = set()
    for kind, key, w in fails:
        k = json.dumps(key, sort_keys=True, ensure_ascii=False)
        if k in seen:
            continue
        seen.add(k)
        run.failures.append(cl.Failure("oracle", "server violates C08 (%s): %s" % (kind, json.dumps(w, ensure_ascii=False, default=str)[:400]),
                                       witness=w, key=key))
    if dis and not fails:
        run.failures.append(cl.Failure("correspondence", "model Chokan.Model.Server and the real server disagree on %d replies, e.g. %s"
                                       % (len(dis), json.dumps(dis[0], ensure_ascii=False)[:500])))
    run.cov.update({"evaluations": sum(len(r.ops) for r in runners) + stats["probe_pairs"],
                    "distinct_nontrivial": stats["histories"],
                    "rule": "history = 10–20 steps mixing registrations of all kinds (guessed verbs of several classes, adjectives, "
                            "adjectival verbs, nouns with ー / a–z readings) and confirmations in the four contexts with clock jumps; "
                            "then save + restart twice; a scenario in which eight registrations (three groups of equal-score homophones) are queued together while the updater is delayed, then save + restart; 48 probe conversions (12 inputs x 4 contexts, ordered lists) and Verif.Dump "
                            "are compared before/after each restart; user.dic must be byte-identical across the second save; plus one bulk "
                            "scenario: 1000 (thorough 3000) noun registrations with multi-byte readings (user.dic of tens of KiB), restart, "
                            "entry list compared",
                    "samples": [runners[0].ops[1:6]] if runners else [], "histogram": stats, "oracle_failures": len(fails)})
    shutil.rmtree(wd, ignore_errors=True)
