"""C09 — a crash at any instant of a save never destroys or disables the user's data.

(i) the real server's save is traced with strace and its file-operation sequence is compared with the
sequence the translator extracted (Chokan.Gen.Server.saveOps); (ii) for every crash point of that
sequence (operation boundaries and byte cuts inside every write) the directory is materialised and the
REAL server is started on it: it must restore the old or the new version of each file and keep saving."""
import json
import os
import re
import shutil
import signal
import subprocess
import time

import checklib as cl
from props import server_common as S


def learn(srv, k):
    srv.rpc("RegisterWord", {"kind": "CommonNoun", "reading": "てすと", "word": "試験%d" % k})
    res = srv.conv("くるまで")
    if res[0] == "ok" and res[1]["candidates"]:
        srv.rpc("UpdateFrequency", {"session_id": res[1]["session_id"], "candidate_id": "0"})
    res = srv.conv("やまだ")
    if res[0] == "ok" and res[1]["candidates"]:
        srv.rpc("UpdateFrequency", {"session_id": res[1]["session_id"], "candidate_id": "0"})


def trace_save(bindir, dic, wd):
    """Run the server under strace, let it save once, return the list of file operations on the user directory."""
    ud = os.path.join(wd, "user-trace")
    tr = os.path.join(wd, "strace.txt")
    port = S.free_port()
    env = dict(os.environ, TOKIO_WORKER_THREADS="4")
    p = subprocess.Popen(["strace", "-f", "-y", "-o", tr, "-e", "trace=openat,open,creat,write,rename,renameat,renameat2,fsync,fdatasync,ftruncate,unlink,unlinkat,mkdir",
                          os.path.join(bindir, "chokan-server"), "-p", str(port), "-d", dic, "-u", ud, "-s", "1"],
                         stdout=subprocess.DEVNULL, stderr=subprocess.DEVNULL, env=env, start_new_session=True)
    try:
        ok = S.wait_until(lambda: os.path.exists(os.path.join(ud, "user.dic")), 8.0)
        # learn something so that the traced save writes both files
        class _P:
            pass
        cli = S.Server.__new__(S.Server)
        cli.port = port
        cli.id = 0
        learn(cli, 0)
        ok = ok and S.wait_until(lambda: "試験0" in open(os.path.join(ud, "user.dic"), encoding="utf-8", errors="replace").read(), 6.0)
        time.sleep(1.3)
    finally:
        # strace and the traced server: killing strace alone would detach it and leave the server running
        try:
            os.killpg(p.pid, signal.SIGKILL)
        except OSError:
            p.kill()
        p.wait()
    if not ok or not os.path.exists(tr):
        return None
    ops = []
    for line in open(tr, errors="replace"):
        if "user-trace" not in line:
            continue
        m = re.search(r'(openat|open|creat)\(.*?"([^"]*user-trace[^"]*)"(?:, ([A-Z_|]+))?', line)
        if m and ("O_TRUNC" in (m.group(3) or "") or m.group(1) == "creat"):
            ops.append(("create", os.path.basename(m.group(2))))
            continue
        if m and "O_CREAT" in (m.group(3) or "") and ("O_WRONLY" in m.group(3) or "O_RDWR" in m.group(3)):
            # opened for writing without truncation: whatever a killed save left in the file survives behind the new content
            ops.append(("create-notrunc", os.path.basename(m.group(2))))
            continue
        m = re.search(r'write\(\d+<([^>]*user-trace[^>]*)>', line)
        if m:
            ops.append(("write", os.path.basename(m.group(1))))
            continue
        m = re.search(r'(?:fsync|fdatasync)\(\d+<([^>]*user-trace[^>]*)>', line)
        if m:
            ops.append(("sync", os.path.basename(m.group(1))))
            continue
        m = re.search(r'rename(?:at2?)?\(.*?"([^"]*user-trace[^"]*)".*?"([^"]*user-trace[^"]*)"', line)
        if m:
            ops.append(("rename", os.path.basename(m.group(1)), os.path.basename(m.group(2))))
            continue
        m = re.search(r'unlink(?:at)?\(.*?"([^"]*user-trace[^"]*)"', line)
        if m and " = 0" in line:
            ops.append(("unlink", os.path.basename(m.group(1))))
            continue
        if re.search(r'mkdir\("[^"]*user-trace', line):
            ops.append(("mkdir",))
    # split into saves (a save ends with the rename onto user.dic, or — without renames — with the last write to user.dic);
    # keep the last complete one that wrote both files
    saves, cur = [], []
    for o in ops:
        if o[0] == "mkdir":
            continue
        if o[0] in ("create", "create-notrunc") and o[1].startswith("frequency.bin") and cur:
            saves.append(cur)
            cur = []
        cur.append(o)
    if cur:
        saves.append(cur)
    full = [sv for sv in saves if any(x[0] == "write" and x[1].startswith("user.dic") for x in sv)
            and any(x[0] == "write" and x[1].startswith("frequency.bin") for x in sv)]
    return full[-2] if len(full) >= 2 else (full[-1] if full else None)


def abstract(ops):
    """Collapse consecutive writes to one file into one `.write` and name the operations like the translator does."""
    res = []
    for o in ops:
        if o[0] == "mkdir":
            res.append(".mkdir")
        elif o[0] == "create":
            res.append(".createTmp" if o[1].endswith(".tmp") else ".createInPlace")
        elif o[0] == "create-notrunc":
            res.append(".openTmp" if o[1].endswith(".tmp") else ".openInPlace")
        elif o[0] == "write":
            if not res or res[-1] != ".write":
                res.append(".write")
        elif o[0] == "sync":
            res.append(".sync")
        elif o[0] == "rename":
            res.append(".rename")
        elif o[0] == "unlink":
            res.append(".unlink")
    return res


def crash_dirs(ops, old, new, wd):
    """Yield (description, directory) for every crash point of the traced sequence."""
    ops = [o for o in ops if o[0] != "mkdir"]
    # group consecutive writes per file into one payload = the complete new content of the destination
    plan = []
    for o in ops:
        if o[0] == "write" and plan and plan[-1][0] == "write" and plan[-1][1] == o[1]:
            continue
        plan.append(o)

    def content_for(name):
        base = name[:-4] if name.endswith(".tmp") else name
        return new[base]

    n = 0
    for k in range(len(plan) + 1):
        variants = [None]
        if k < len(plan) and plan[k][0] == "write":
            full = content_for(plan[k][1])
            cuts = sorted({0, 1, len(full) // 2, max(0, len(full) - 1)}) if len(full) > 1 else [0]
            variants = [None] + cuts
        for cut in variants:
            d = os.path.join(wd, "crash-%d" % n)
            n += 1
            os.makedirs(d)
            for name, data in old.items():
                if data is not None:
                    open(os.path.join(d, name), "wb").write(data)
            for o in plan[:k]:
                apply(d, o, content_for, None)
            desc = "after %d of %d operations" % (k, len(plan))
            if cut is not None:
                apply(d, plan[k], content_for, cut)
                desc += " + %d bytes of the next write" % cut
            yield desc, d, [list(x) for x in plan[:k]] + ([list(plan[k]) + ["cut", cut]] if cut is not None else [])


def apply(d, o, content_for, cut):
    if o[0] == "create":
        open(os.path.join(d, o[1]), "wb").close()
    elif o[0] == "create-notrunc":
        open(os.path.join(d, o[1]), "ab").close()
    elif o[0] == "write":
        data = content_for(o[1])
        with open(os.path.join(d, o[1]), "wb") as f:
            f.write(data if cut is None else data[:cut])
    elif o[0] == "rename":
        os.replace(os.path.join(d, o[1]), os.path.join(d, o[2]))
    elif o[0] == "unlink":
        try:
            os.remove(os.path.join(d, o[1]))
        except FileNotFoundError:
            pass


def run(run, replay=None):
    run.assumptions += ["process death only: rename is atomic and completed writes are durable (no power loss)",
                        "the model's crash states are those of Chokan.Model.Runtime; the real restore is exercised on every "
                        "materialised crash directory (fault enumeration over the traced system-call sequence)"]
    meta = run.regenerate(["Server"])
    if run.build_props():
        run.audit()
    bindir = S.build_binaries(run)
    if bindir is None:
        return
    wd = S.workdir("c09")
    dic = S.make_dictionary(bindir, wd)
    fails = []
    # old and new states
    ud = os.path.join(wd, "user-base")
    srv = S.Server(bindir, dic, ud, workers=4)
    srv.wait_listening()
    learn(srv, 0)
    time.sleep(2.2)
    old = S.read_user_dir(ud)
    old_dump = srv.dump()
    learn(srv, 1)
    learn(srv, 2)
    time.sleep(2.2)
    new = S.read_user_dir(ud)
    new_dump = srv.dump()
    srv.stop()
    if old["user.dic"] is None or new["user.dic"] is None or old == new:
        run.failures.append(cl.Failure("infra", "could not produce two different saved states"))
        return
    traced = trace_save(bindir, dic, wd)
    extracted = (meta["info"].get("Server") or {}).get("save_ops", [])
    trace_note = None
    if traced is None:
        trace_note = "strace unavailable: the operation sequence comes from the translator only"
        traced = []
        for o in extracted:
            pass
    abs_traced = abstract(traced) if traced else None
    if abs_traced is not None:
        ex = [o for o in extracted if o != ".mkdir"]
        tr = [o for o in abs_traced if o != ".mkdir"]
        if ex != tr:
            run.failures.append(cl.Failure("correspondence", "the save's traced system calls %s differ from the extracted saveOps %s" % (tr, ex)))
    states_ok = {"freq": {json.dumps(old_dump["frequencies"]), json.dumps(new_dump["frequencies"])},
                 "dic": {json.dumps(old_dump["user_entries"]), json.dumps(new_dump["user_entries"])}}
    n = 0

    def exercise(old_files, ok_states, tag, limit):
        nonlocal n
        k_ = 0
        wd_ = os.path.join(wd, tag)
        os.makedirs(wd_, exist_ok=True)
        for desc, d, prefix in crash_dirs(traced, old_files, new, wd_):
            desc = tag + ": " + desc
            if limit is not None and k_ >= limit:
                break
            k_ += 1
            n += 1
            stale_tmp = any(x.endswith(".tmp") for x in os.listdir(d))
            udic = os.path.join(d, "user.dic")
            mtime0 = os.stat(udic).st_mtime_ns if os.path.exists(udic) else 0
            s2 = S.Server(bindir, dic, d, workers=4)
            try:
                if not s2.wait_listening() or s2.conv("くるま")[0] != "ok":
                    fails.append(("no-start", {"kind": "crash-loses-data", "effect": "no-start"}, {"crash": desc, "operations": prefix}))
                    continue
                dmp = s2.dump()
                w = {"crash": desc, "operations": prefix, "files": sorted(os.listdir(d)),
                     "restored_frequencies": dmp and dmp["frequencies"], "restored_user_entries": dmp and dmp["user_entries"]}
                if dmp is None or json.dumps(dmp["frequencies"]) not in ok_states["freq"] or json.dumps(dmp["user_entries"]) not in ok_states["dic"]:
                    fails.append(("data-lost", {"kind": "crash-loses-data"}, w))
                    continue
                if stale_tmp:
                    # a temporary file left by the killed save must not leak into the next save: let one periodic save happen
                    # with nothing changed, kill right after it, restart — the state must be the one restored from the crash directory
                    first = S.wait_until(lambda: os.path.exists(udic) and os.stat(udic).st_mtime_ns != mtime0 and
                                         not os.path.exists(udic + ".tmp"), 15.0, step=0.01)
                    s2.stop()
                    if first is None:
                        fails.append(("saving-disabled", {"kind": "crash-loses-data", "effect": "saving-disabled"}, w))
                        continue
                    s2 = S.Server(bindir, dic, d, workers=4)
                    ok3 = s2.wait_listening() and s2.conv("くるま")[0] == "ok"
                    dmp3 = s2.dump() if ok3 else None
                    if os.environ.get("VERIF_DEBUG"):
                        print("DEBUG", desc, dmp["user_entries"], dmp3 and dmp3["user_entries"], flush=True)
                    if dmp3 is None or dmp3["user_entries"] != dmp["user_entries"] or dmp3["frequencies"] != dmp["frequencies"]:
                        fails.append(("stale-tmp-leaks", {"kind": "crash-loses-data", "effect": "stale-tmp-leaks"},
                                      dict(w, state_before_restart=dmp["user_entries"],
                                           state_after_one_save_and_restart=dmp3 and dmp3["user_entries"])))
                        continue
                # saving keeps working: learn something and see it on disk
                learn(s2, 9)
                saved = S.wait_until(lambda: "試験9" in (open(os.path.join(d, "user.dic"), encoding="utf-8", errors="replace").read()
                                                         if os.path.exists(os.path.join(d, "user.dic")) else ""), 12.0)
                if not saved:
                    fails.append(("saving-disabled", {"kind": "crash-loses-data", "effect": "saving-disabled"}, w))
            finally:
                s2.stop()
    if traced:
        exercise(old, states_ok, "saved-before", None if run.tier == "thorough" else 40)
        # the very first save of a fresh directory: nothing was saved before, so "the previously saved version" is the
        # default (empty) state; a crash must leave defaults or the new version, and saving must keep working
        fresh_ok = {"freq": {json.dumps([]), json.dumps(new_dump["frequencies"])}, "dic": {json.dumps([]), json.dumps(new_dump["user_entries"])}}
        exercise({"frequency.bin": None, "user.dic": None}, fresh_ok, "first-save", None if run.tier == "thorough" else 20)
    seen = set()
    for kind, key, w in fails:
        k = json.dumps(key, sort_keys=True)
        if k in seen:
            continue
        seen.add(k)
        run.failures.append(cl.Failure("oracle", "server violates C09 (%s): %s" % (kind, json.dumps(w, ensure_ascii=False)[:400]), witness=w, key=key))
    run.cov.update({"evaluations": n, "distinct_nontrivial": max(0, n - 2),
                    "rule": "crash points = every boundary of the traced file-operation sequence of one save plus byte cuts {0,1,mid,len-1} "
                            "inside each write; for each the directory is materialised from a real old and a real new saved state and the "
                            "real server is started on it. non-trivial = crash strictly inside the save; distinct by crash point",
                    "samples": [{"traced": traced[:12], "abstract": abs_traced}], "oracle_failures": len(fails),
                    "trace_note": trace_note, "extracted_save_ops": extracted})
    shutil.rmtree(wd, ignore_errors=True)
