"""C10 — text dictionary format: round trip of every entry, multi-speech lines, isolation of bad lines."""
import json

import checklib as cl
from props import common

CLASSES = ["godan", "yodan", "simoIchidan", "kamiIchidan", "simoNidan", "kamiNidan", "hen"]
ROWS = "アカサタナハマヤワラダバガザ"
SIMPLE = ["N.sahen", "N.proper", "N.common", "ADJ", "ADV", "ADJV", "VERBATIM", "CONJ", "P.case", "P.adverbial",
          "P.conjunctive", "P.sentenceFinal", "P.other", "AUX", "PRE", "CNT", "AFX.prefix", "AFX.suffix"]
KANA = [chr(c) for c in range(0x3041, 0x3094)]          # specification: "any kana reading" = ぁ..ん
STEMCH = list("車書食見漢字カナかな/;;0123456789-_.,:!?()[]{}<>#%&*+=~^|\\'\"`$@aZ行五段詞一般") + ["\r", "　", "é", "😀"]


def all_tokens():
    return SIMPLE + ["V.%s.%d" % (c, ord(r)) for c in CLASSES for r in ROWS]


def gen(run):
    rng = cl.Rng(run.seed)
    thorough = run.tier == "thorough"
    toks = all_tokens()
    entries = []
    reps = 40 if thorough else 4
    for t in toks:
        for _ in range(reps):
            rd = "".join(rng.pick(KANA) for _ in range(1 + rng.below(5)))
            st = "".join(rng.pick(STEMCH) for _ in range(1 + rng.below(4)))
            entries.append((t, rd, st))
    for c in KANA:      # every kana of the class at least once, alone and inside a reading
        entries.append(("N.common", c, "字"))
        entries.append(("ADJ", "か" + c + "き", "x/" + c))
    return rng, toks, entries


def run(run, replay=None):
    run.assumptions += ["rust-peg semantics (ordered choice, greedy repetition, whole-input match of pub rules) are modelled by hand",
                        "the reader is exercised on valid UTF-8 only; `Write::write` short writes are outside the model"]
    run.regenerate(["Dic", "DicGrammar"])
    if run.build_props():
        run.audit()
    rng, toks, entries = gen(run)
    # round 1: print every entry with the real Display
    lines1 = ["print %s | %s | %s" % (t, cl.cps(rd), cl.cps(st)) for t, rd, st in entries]
    impl1, model1 = common.run_both(run, lines1, "print")
    if impl1 is None:
        return
    dis = common.diff(run, lines1, impl1, model1, "print")
    printed = [cl.from_cps(r[3:]) for r in impl1]
    fails = []
    # injectivity on the generated set
    seen = {}
    for e, line in zip(entries, printed):
        if line in seen and seen[line] != e:
            fails.append(("injective", {"kind": "injective", "speech": e[0]}, {"entries": [list(seen[line]), list(e)], "line": line}))
        seen[line] = e
    # round 2: parse the printed lines, multi-speech lines, comments, blank and corrupt lines, whole files
    reqs = [("parse " + cl.cps(l), {"op": "roundtrip", "entry": e, "line": l}) for e, l in zip(entries, printed)]
    name_of = {}
    for (t, rd, st), l in zip(entries, printed):
        name_of[t] = l.split("\t")[2].strip("/")
    for _ in range(3000 if run.tier == "thorough" else 300):
        k = 1 + rng.below(5)
        ts = [rng.pick(toks) for _ in range(k)]
        rd = "".join(rng.pick(KANA) for _ in range(1 + rng.below(4)))
        st = "".join(rng.pick(STEMCH) for _ in range(1 + rng.below(3)))
        line = rd + "\t" + st + "\t/" + "/".join(name_of[t] for t in ts) + "/"
        reqs.append(("parse " + cl.cps(line), {"op": "multi", "tokens": ts, "rd": rd, "st": st, "line": line}))
    corrupt = []
    for _ in range(3000 if run.tier == "thorough" else 400):
        base = rng.pick(printed)
        how = rng.below(8)
        if how == 0:
            l = base[:rng.below(len(base) + 1)]
        elif how == 1:
            i = rng.below(len(base))
            l = base[:i] + rng.pick(["\t", " ", "/", "x", "ー", ";"]) + base[i:]
        elif how == 2:
            l = base.replace("\t", " ", 1)
        elif how == 3:
            l = ";" + base
        elif how == 4:
            l = base + rng.pick(["/", " ", "x", "/一般名詞/", "\t"])
        elif how == 5:
            l = base.replace("/", "", 1)
        elif how == 6:
            l = ""
        else:
            i = rng.below(len(base))
            l = base[:i] + base[i + 1:]
        corrupt.append(l)
        reqs.append(("parse " + cl.cps(l), {"op": "corrupt", "line": l}))
    files = []
    nfiles = 300 if run.tier == "thorough" else 40
    big = [400, 700] + ([250, 1000, 1500, 333] if run.tier == "thorough" else [])      # files of tens of KiB
    for fi in range(nfiles + len(big)):
        n = 1 + rng.below(8) if fi < nfiles else big[fi - nfiles]
        ls = [rng.pick(printed) if rng.chance(2, 3) else rng.pick(corrupt + [";; c", "", "bad line"]) for _ in range(n)]
        ls = [l.replace("\n", "") for l in ls]
        content = "\n".join(ls) + ("\n" if rng.chance(1, 2) else "")
        files.append((ls, content))
        reqs.append(("readall " + cl.cps(content), {"op": "file", "lines": ls}))
        reqs.append(("rewrite " + cl.cps(content), {"op": "rewrite", "lines": ls}))
    lines2 = [l for l, _ in reqs]
    impl2, model2 = common.run_both(run, lines2, "parse")
    if impl2 is None:
        return
    dis += common.diff(run, lines2, impl2, model2, "parse")
    per_line = {}
    n = {"roundtrip": 0, "multi": 0, "isolation": 0, "file_roundtrip": 0, "corrupt_lines": 0, "corrupt_rejected": 0}
    for (l, m), r in zip(reqs, impl2):
        if m["op"] in ("roundtrip", "multi", "corrupt"):
            per_line[m["line"]] = r
        if m["op"] == "roundtrip":
            t, rd, st = m["entry"]
            n["roundtrip"] += 1
            want = "ok %s ; %s" % (cl.cps(m["line"]), t)
            if r != want and "\n" not in st:
                fails.append(("roundtrip", {"kind": "roundtrip", "speech": t},
                              {"entry": {"speech": t, "reading": rd, "stem": st}, "line": m["line"], "read_back": r}))
        elif m["op"] == "multi":
            n["multi"] += 1
            want = "ok " + " ;; ".join("%s ; %s" % (cl.cps("%s\t%s\t/%s/" % (m["rd"], m["st"], name_of[t])), t) for t in m["tokens"])
            if r != want:
                fails.append(("multi", {"kind": "multi", "tokens": m["tokens"][:2]}, {"line": m["line"], "read_back": r, "expected": want}))
        elif m["op"] == "corrupt":
            n["corrupt_lines"] += 1
            n["corrupt_rejected"] += 1 if r == "ok" else 0
    for (l, m), r in zip(reqs, impl2):
        if m["op"] == "file":
            n["isolation"] += 1
            parts = []
            for ln in m["lines"]:
                pr = per_line.get(ln)
                if pr is None:
                    pr = {";; c": "ok", "": "ok", "bad line": "ok"}.get(ln)
                if pr and pr != "ok":
                    parts.append(pr[3:])
            want_entries = " ;; ".join(parts)
            got = r.split(" ", 2)
            got_entries = got[2] if len(got) > 2 else ""
            if got_entries != want_entries:
                fails.append(("isolation", {"kind": "isolation"}, {"lines": m["lines"], "read": r, "expected_entries": want_entries}))
    # whole dictionaries through the real writer and back through the real reader: every entry on a line of its own, the same
    # entries read back (files of one line up to tens of KiB — a writer that buffers or batches must not lose a separator)
    rw = [(m, impl2[i - 1], r) for i, ((l, m), r) in enumerate(zip(reqs, impl2)) if m["op"] == "rewrite" and i > 0 and reqs[i - 1][1]["op"] == "file"]
    lines3 = []
    for m, rd, wr in rw:
        lines3.append("readall " + (wr[3:] if wr.startswith("ok ") else cl.cps("")))
    impl3, model3 = common.run_both(run, lines3, "rewrite") if lines3 else ([], [])
    if impl3 is None:
        return
    dis += common.diff(run, lines3, impl3, model3, "rewrite")
    for (m, rd, wr), back in zip(rw, impl3):
        n["file_roundtrip"] += 1
        if not rd.startswith("ok ") or not wr.startswith("ok") or not back.startswith("ok "):
            fails.append(("file-roundtrip", {"kind": "file-roundtrip", "how": "panic"}, {"lines": m["lines"][:50], "read": rd[:200], "written": wr[:200], "read_back": back[:200]}))
            continue
        ent = rd.split(" ", 2)
        ent = [e for e in (ent[2].split(" ;; ") if len(ent) > 2 and ent[2] else [])]
        ent2 = back.split(" ", 2)
        ent2 = [e for e in (ent2[2].split(" ;; ") if len(ent2) > 2 and ent2[2] else [])]
        text = cl.from_cps(wr[3:]) if len(wr) > 3 else ""
        nlines = text.count("\n")
        if sorted(ent) != sorted(ent2) or nlines != len(ent) or (text and not text.endswith("\n")):
            lost = [cl.from_cps(e.split(" ; ")[0]) for e in ent if e not in ent2][:6]
            fails.append(("file-roundtrip", {"kind": "file-roundtrip", "how": "lost" if len(ent2) < len(ent) else "differs"},
                          {"entries_read_from_source": len(ent), "lines_written": nlines, "entries_read_back": len(ent2),
                           "bytes_written": len(text.encode("utf-8")), "missing_after_round_trip": lost,
                           "source_lines": m["lines"]}))
    seen = set()
    for kind, key, w in fails:
        k = json.dumps(key, sort_keys=True, ensure_ascii=False)
        if k in seen:
            continue
        seen.add(k)
        if len(seen) > 20:
            break
        run.failures.append(cl.Failure("oracle", "dic text format violates C10 (%s): %s" % (kind, json.dumps(w, ensure_ascii=False)[:220]),
                                       witness=w, key=key))
    if dis and not fails:
        run.failures.append(cl.Failure("correspondence", "model Chokan.Model.DicText and dic::standard disagree on %d requests, e.g. %s"
                                       % (len(dis), json.dumps(dis[0], ensure_ascii=False)[:400]), detail=json.dumps(dis[:5], ensure_ascii=False)))
    run.cov.update({
        "evaluations": len(lines1) + len(lines2) + len(lines3),
        "distinct_nontrivial": len(set(lines1)) + len({l for (l, m), r in zip(reqs, impl2) if r != "ok"}),
        "rule": "116 speeches x random kana readings (ぁ..ん, every kana at least once) x random stems over kanji/kana/ASCII symbols "
                "incl. '/', ';', CR, full-width space, emoji; multi-speech lines; corrupted lines (8 mutation kinds); files mixing "
                "valid/comment/blank/corrupt lines. distinct by request line; non-trivial = printed entry or a line that parses",
        "samples": [{"request": m, "impl": r} for (l, m), r in list(zip(reqs, impl2))[:2] + list(zip(reqs, impl2))[-1:]],
        "oracle_checks": n, "oracle_failures": len(fails),
    })
