"""C11 — the dictionary builder loses no accepted word and invents none."""
import json
import os
import shutil
import subprocess

import checklib as cl
from props import common
from props import server_common as S
from props import kkc_common as K

ALPHA = K.ALPHA
CLASSES = ["五段", "四段", "上一", "下一", "上二", "下二", "変"]
ROWS = "アカサタナハマヤワラダバガザ"
SIMPLE = ["一般名詞", "サ変名詞", "固有名詞", "形容詞", "副詞", "形容動詞", "感動詞", "接続詞", "連体詞", "助数詞"]
ANCS = ["格助詞", "副助詞", "接続助詞", "終助詞", "助詞", "助動詞", "接頭辞", "接尾辞", "助数詞"]
# rows that to_forms knows (others would crash the builder: outside the property's "accepted" lines)
KNOWN_ROWS = {"五段": "カガサザタナバマラワ", "四段": "カガサタダナハバマラ", "下一": "アカガサザタダナハバマラ", "上一": "アカガザタナハバマラワ",
              "下二": "アカガサザタダナハバマラヤワ", "上二": "カガタダハバマヤラ", "変": "カサラナ"}
KANJI = "車書食見山川田中上下東西南北人大小高安長新古今明暗"


def gen_source(rng, n, anc=False, homonyms=False):
    lines = []
    kana = [c for c in ALPHA[:82]]
    small = [rng.pick(kana) for _ in range(6)]
    if homonyms:
        # few readings, many words each: long runs of equal readings in the sorted word list
        pool = ["".join(rng.pick(kana) for _ in range(1 + rng.below(3))) for _ in range(max(3, n // 40))]
        for i in range(n):
            lines.append("%s\t%s%s\t/%s/" % (rng.pick(pool), rng.pick(KANJI), rng.pick(KANJI), rng.pick(SIMPLE[:3] if not anc else ANCS)))
        return "\n".join(lines) + "\n"
    for _ in range(n):
        r = rng.below(20)
        rd = "".join(rng.pick(small if rng.chance(2, 3) else kana) for _ in range(1 + rng.below(4)))
        if r == 0:
            rd += rng.pick("ーabz")
        if r == 1:
            rd = rd + "ゎ"                       # accepted by the text format, outside the trie alphabet
        st = "".join(rng.pick(KANJI) for _ in range(1 + rng.below(2)))
        if anc:
            sp = rng.pick(ANCS)
        elif rng.chance(1, 3):
            cls = rng.pick(CLASSES)
            sp = rng.pick(KNOWN_ROWS[cls]) + "行" + cls
            if cls == "変" and sp[0] == "カ" and not rd:
                rd = "く"
        else:
            sp = rng.pick(SIMPLE)
        if r == 2:
            lines.append(";; comment %d" % len(lines))
        if r == 3:
            lines.append("bad line without tabs")
        if r == 4:
            lines.append("%s\t%s\t/%s/%s/" % (rd, st, sp, rng.pick(SIMPLE)))     # multi-speech line
            continue
        if r == 5:
            lines.append("")
        if r == 6 and lines:
            lines.append(rng.pick(lines))                                          # exact duplicate
        lines.append("%s\t%s\t/%s/" % (rd, st, sp))
    return "\n".join(lines) + "\n"


def run(run, replay=None):
    run.assumptions += ["postcard and the serde impls of HashMap/HashSet/Trie are modelled as the identity and validated by loading the "
                        "image the real binary wrote; trie membership of built dictionaries relies on C04",
                        "source lines whose conjugation row does not exist make chokan-dic abort (panic): excluded as 'not accepted'"]
    run.regenerate(["Dic", "DicGrammar", "Server", "Kkc"])
    if run.build_props():
        run.audit()
    bindir = S.build_binaries(run)
    hb = run.build_harness(["impl_driver"])
    if bindir is None or hb is None:
        return
    rng = cl.Rng(run.seed + 11)
    thorough = run.tier == "thorough"
    wd = S.workdir("c11")
    fails = []
    stats = {"dictionaries": 0, "source_lines": 0, "words_expected": 0, "conversions": 0, "outside_alphabet": 0}
    impl_lines, model_lines = [], []
    cases = []
    sizes = [5, 40, 300] + ([3000, 20000, -5000] if thorough else [1200, -1500])
    for ci, n in enumerate(sizes):
        hom = n < 0
        n = abs(n)
        std = gen_source(rng, n, homonyms=hom)
        anc = gen_source(rng, max(3, n // 4), anc=True)
        tk = gen_source(rng, max(3, n // 6))
        d = os.path.join(wd, "d%d" % ci)
        os.makedirs(d)
        for name, text in (("std.dic", std), ("anc.dic", anc), ("tankan.dic", tk)):
            open(os.path.join(d, name), "w", encoding="utf-8").write(text)
        out = os.path.join(d, "chokan.bin")
        p = subprocess.run([os.path.join(bindir, "chokan-dic"), os.path.join(d, "std.dic"), os.path.join(d, "anc.dic"),
                            os.path.join(d, "tankan.dic"), out], stdout=subprocess.PIPE, stderr=subprocess.PIPE, timeout=1800)
        stats["dictionaries"] += 1
        stats["source_lines"] += std.count("\n") + anc.count("\n") + tk.count("\n")
        if p.returncode != 0 or not os.path.exists(out):
            fails.append(("builder-failed", {"kind": "builder-failed"}, {"sizes": n, "stderr": p.stderr.decode("utf-8", "replace")[-300:]}))
            continue
        probes = []
        for text in (std,):
            for l in text.split("\n")[:200]:
                # non-conjugating entries only: their reading is itself a key of the built dictionary
                if l.count("\t") == 2 and l.split("\t")[2] in ("/一般名詞/", "/サ変名詞/", "/固有名詞/", "/副詞/", "/感動詞/", "/接続詞/", "/連体詞/", "/助数詞/"):
                    probes.append(l.split("\t")[0])
        q = ["bdump std", "bdump anc", "bdump tankan", "bstruct std", "bstruct anc"] + ["bhas std " + cl.cps(k) for k in probes[:40]] + \
            ["kcands normal 100000 " + cl.cps(k) for k in probes[:25]] + ["btankan " + cl.cps(k) for k in probes[:10]]
        impl_lines += ["bload " + cl.cps(out)] + q
        model_lines += ["bbuild %s | %s | %s" % (cl.cps(std), cl.cps(anc), cl.cps(tk))] + [x if not x.startswith("bstruct") else "bdump tankan" for x in q]
        cases.append((n, std, anc, tk, len(q) + 1))
    rc, o, e = run.run_harness(hb, "impl_driver", input="\n".join(impl_lines) + "\n", timeout=3600)
    impl = o.splitlines()
    model = run.run_driver(model_lines, timeout=3600)
    dis = []
    if rc != 0 or len(impl) != len(impl_lines):
        run.failures.append(cl.Failure("infra", "impl_driver failed on the builder stream", detail=e[-300:]))
        return
    if model is not None:
        for l, a, b in zip(impl_lines, impl, model):
            if a != b and not l.startswith("bstruct"):
                dis.append({"request": l[:60], "impl": a[:300], "model": b[:300]})
    # oracle on the implementation: every accepted word is in the loaded map and (if spelled in the alphabet) in the trie;
    # nothing else is there.  Expected words come from the real reader + the real conjugation (harness).
    pos = 0
    for (n, std, anc, tk, nq) in cases:
        chunk = impl[pos:pos + nq]
        pos += nq
        for which, text, dump in (("std", std, chunk[1]), ("anc", anc, chunk[2]), ("tankan", tk, chunk[3])):
            # expected: parse + conjugate every line with the real crate
            ls = [l for l in text.split("\n")]
            rc2, o2, _ = run.run_harness(hb, "impl_driver", input="\n".join("parse " + cl.cps(l) for l in ls) + "\n", timeout=3600)
            parsed = o2.splitlines()
            wl = []
            for l, pr in zip(ls, parsed):
                if pr == "ok" or not pr.startswith("ok "):
                    continue
                for ent in pr[3:].split(" ;; "):
                    line_cps, tok = ent.split(" ; ")
                    line = cl.from_cps(line_cps)
                    rd, st = line.split("\t")[0], line.split("\t")[1]
                    wl.append("words %s | %s | %s" % (tok, cl.cps(rd), cl.cps(st)))
            rc3, o3, _ = run.run_harness(hb, "impl_driver", input="\n".join(wl) + "\n", timeout=3600)
            expected = {}
            for r3 in o3.splitlines():
                if not r3.startswith("ok "):
                    continue
                for item in r3[3:].split(" ; "):
                    w, rd, tok = item.split(" : ")
                    expected.setdefault(cl.from_cps(rd), []).append((cl.from_cps(w), tok))
            stats["words_expected"] += sum(len(v) for v in expected.values())
            got = {}
            body = dump[3:].strip() if dump.startswith("ok") else ""
            for ent in body.split(" ") if body else []:
                k, ws = ent.split("=")
                got[K.undot(k)] = [(K.undot(x.split("/")[0]), x.split("/")[2]) for x in ws.split(",")]
            for rd, ws in expected.items():
                for w in ws:
                    if w not in got.get(rd, []):
                        fails.append(("word-lost", {"kind": "word-lost", "dict": which},
                                      {"dictionary": which, "entries": n, "reading": rd, "word": w[0], "speech": w[1], "stored": got.get(rd)}))
                if sorted(got.get(rd, [])) != sorted(ws) and all(w in got.get(rd, []) for w in ws):
                    fails.append(("word-invented-or-duplicated", {"kind": "word-invented", "dict": which},
                                  {"dictionary": which, "reading": rd, "expected": ws, "stored": got.get(rd)}))
            for rd in got:
                if rd not in expected:
                    fails.append(("word-invented", {"kind": "word-invented", "dict": which}, {"dictionary": which, "reading": rd, "stored": got[rd]}))
            if which == "std":
                # trie membership and retrieval by conversion for the probed readings
                for l, r in zip(impl_lines, impl):
                    pass
        # bhas / kcands replies of this case
        for l, r in zip([x for x in (["bload"] + ["bdump std", "bdump anc", "bdump tankan"])], chunk[:4]):
            pass
        qlines = impl_lines[pos - nq:pos]
        for l, r in zip(qlines, chunk):
            if l.startswith("bstruct ") and r.startswith("ok size="):
                # the loaded trie must be a sound double array: in particular its free-slot set is exactly the unused slots,
                # or the next insertion (user dictionary merge, registration) overwrites words of the image
                from props import c04 as C04
                slots_, free_ = C04.parse_dump(r[3:])
                why_ = C04.structure_ok(slots_, free_, 255)
                stats["tries_checked"] = stats.get("tries_checked", 0) + 1
                if why_:
                    fails.append(("loaded-trie-unsound", {"kind": "loaded-trie-unsound"},
                                  {"dictionary": l.split(" ")[1], "entries": n, "invariant": why_, "slots": len(slots_), "free_listed": len(free_)}))
            if l.startswith("bhas std "):
                key = cl.from_cps(l[9:])
                should = all(c in ALPHA for c in key)
                if not should:
                    stats["outside_alphabet"] += 1
                if (r == "yes") != should:
                    fails.append(("trie-membership", {"kind": "trie-membership"}, {"reading": key, "in_trie": r, "spelled_in_alphabet": should}))
            elif l.startswith("kcands normal "):
                key = cl.from_cps(l.split(" ", 3)[3])
                stats["conversions"] += 1
                if all(c in ALPHA for c in key) and r.startswith("ok"):
                    cds = K.parse_cands(r)
                    texts = {c["text"] for c in cds}
                    # every independent standard word with this reading is offered as a whole-input candidate
                    body = chunk[1][3:]
                    for ent in body.split(" "):
                        if ent.startswith(K.dot(key) + "="):
                            for x in ent.split("=")[1].split(","):
                                w, _, tok = x.split("/")
                                if not tok.startswith(("P.", "AUX", "AFX.")) and K.undot(w) not in texts:
                                    fails.append(("not-retrievable", {"kind": "not-retrievable"},
                                                  {"reading": key, "word": K.undot(w), "speech": tok, "candidates": sorted(texts)[:8]}))
    seen = set()
    for kind, key, w in fails:
        k = json.dumps(key, sort_keys=True, ensure_ascii=False)
        if k in seen:
            continue
        seen.add(k)
        run.failures.append(cl.Failure("oracle", "builder violates C11 (%s): %s" % (kind, json.dumps(w, ensure_ascii=False)[:300]), witness=w, key=key))
    if dis and not fails:
        run.failures.append(cl.Failure("correspondence", "model of chokan-dic and the real image disagree on %d replies, e.g. %s"
                                       % (len(dis), json.dumps(dis[0], ensure_ascii=False)[:500])))
    run.cov.update({"evaluations": len(impl_lines), "distinct_nontrivial": stats["dictionaries"],
                    "rule": "source dictionaries of 5 … 1200 (thorough: 20000) entries over every part of speech and conjugation row, "
                            "duplicate and overlapping readings, readings with ー / a–z and with kana outside the trie alphabet, multi-speech, "
                            "comment, blank and corrupt lines; built by the real chokan-dic binary, loaded through postcard, dumped and "
                            "queried (trie membership, conversion, single-kanji lookup); compared with the model's buildMap",
                    "samples": [{"entries": c[0], "first_lines": c[1].split("\n")[:4]} for c in cases[:2]],
                    "histogram": stats, "model_disagreements": len(dis), "oracle_failures": len(fails)})
    shutil.rmtree(wd, ignore_errors=True)
