"""C12 — conjugation alignment, row/core forms, guessable speeches conjugate, guessing accepts pairs."""
import json

import checklib as cl
from props import common

CLASSES = ["godan", "yodan", "simoIchidan", "kamiIchidan", "simoNidan", "kamiNidan", "hen"]
ROWS = "アカサタナハマヤワラダバガザ"
GRADES = {  # specification data, mirrors Chokan.Lemmas.Dic.gradeTable
    "ア": ["あ", "い", "う", "え", "お"], "カ": ["か", "き", "く", "け", "こ"], "ガ": ["が", "ぎ", "ぐ", "げ", "ご"],
    "サ": ["さ", "し", "す", "せ", "そ"], "ザ": ["ざ", "じ", "ず", "ぜ", "ぞ"], "タ": ["た", "ち", "つ", "て", "と"],
    "ダ": ["だ", "ぢ", "づ", "で", "ど"], "ナ": ["な", "に", "ぬ", "ね", "の"], "ハ": ["は", "ひ", "ふ", "へ", "ほ"],
    "バ": ["ば", "び", "ぶ", "べ", "ぼ"], "マ": ["ま", "み", "む", "め", "も"], "ヤ": ["や", "い", "ゆ", "え", "よ"],
    "ラ": ["ら", "り", "る", "れ", "ろ"], "ワ": ["わ", "いゐ", "う", "えゑ", "おを"],
}
EUPHONIC = "っんい"
# the euphonic heads a verb of this class and row has (mirrors Chokan.Lemmas.Dic.euphonicOf): イ音便 カ/ガ, 促音便 タ/ラ/ワ, 撥音便 ナ/バ/マ
EUPHONIC_OF = {"カ": "い", "ガ": "い", "タ": "っ", "ラ": "っ", "ワ": "っ", "ナ": "ん", "バ": "ん", "マ": "ん"}


def euphonic_of(cls, row, rd):
    if cls != "godan":
        return ""
    if row == "カ" and rd.endswith("い"):
        return "っ"          # 行く: after a stem reading in い the カ row takes っ instead of い
    return EUPHONIC_OF.get(row, "")
HIRA = [chr(c) for c in range(0x3041, 0x3097)]


def tok(cls, row):
    return "V.%s%s" % (cls, "".join(".%d" % ord(c) for c in row))


def core_ok(cls, row, okuri):
    g = GRADES.get(row)
    if g is None:
        return True

    def has(i):
        return any(k in okuri for k in g[i])
    if cls == "godan":
        return all(has(i) for i in range(5))
    if cls == "yodan":
        return all(has(i) for i in range(4))
    if cls == "kamiIchidan":
        return has(1) or "" in okuri
    if cls == "simoIchidan":
        return has(3) or "" in okuri
    if cls == "kamiNidan":
        return has(1) and has(2)
    if cls == "simoNidan":
        return has(3) and has(2)
    if cls == "hen":
        if row == "カ":
            return all(o in okuri for o in ["こ", "き", "くる", "くれ", "こい"])
        return all(has(i) for i in range(4))
    return True


def gen(run):
    rng = cl.Rng(run.seed)
    thorough = run.tier == "thorough"
    reqs = []   # (line, meta)
    stems = ["書", "x", "見て", "Ａ", "", "食べ"]
    readings = ["か", "い", "かい", "み", "a", "", "たべ", "ab", "き", "é", "かa"]
    rows = list(ROWS) + ["パ", "", "カカ", "k"]
    for cls in CLASSES:
        for row in rows:
            for rd in readings:
                st = rng.pick(stems)
                reqs.append(("conj %s | %s | %s" % (tok(cls, row), cl.cps(st), cl.cps(rd)),
                             {"op": "conj", "cls": cls, "row": row, "stem": st, "rd": rd}))
    for cls in CLASSES:
        for row in list(ROWS):
            for rd in ["あい", "およ", "かっ", "しん", "い", "っ", "ん", "いい"]:
                reqs.append(("conj %s | %s | %s" % (tok(cls, row), cl.cps("相"), cl.cps(rd)),
                             {"op": "conj", "cls": cls, "row": row, "stem": "相", "rd": rd}))
    for _ in range(4000 if thorough else 300):
        cls, row = rng.pick(CLASSES), rng.pick(rows)
        st = "".join(rng.pick("書見食x漢") for _ in range(rng.below(3)))
        rd = "".join(rng.pick(HIRA + ["a", "z", "ー"]) for _ in range(rng.below(4)))
        reqs.append(("conj %s | %s | %s" % (tok(cls, row), cl.cps(st), cl.cps(rd)),
                     {"op": "conj", "cls": cls, "row": row, "stem": st, "rd": rd}))
    for sp in ["ADJ", "ADJV", "N.common", "ADV", "AFX.prefix", "P.case", "CNT"]:
        reqs.append(("conj %s | %s | %s" % (sp, cl.cps("高"), cl.cps("たか")), {"op": "conjplain", "sp": sp}))
    # guess_form over the kana blocks (exhaustive) and random scalars
    for c in range(0x3040, 0x3100):
        reqs.append(("guessform %d" % c, {"op": "guessform", "ch": chr(c)}))
    for _ in range(2000 if thorough else 200):
        c = rng.below(0x11000)
        if 0xD800 <= c <= 0xDFFF:
            continue
        reqs.append(("guessform %d" % c, {"op": "guessform", "ch": chr(c)}))
    # guessing on well-formed pairs: stem+ending / stem reading+ending
    endings = [h + "ない" for h in HIRA] + ["い", "だ", "", "くない", "る"]
    for e in endings:
        for st, sr in [("書", "か"), ("食", "た"), ("見", "み"), ("", ""), ("漢字", "かんじ"), ("x", "a")]:
            reqs.append(("newguessed %s | %s" % (cl.cps(sr + e), cl.cps(st + e)),
                         {"op": "newguessed", "stem": st, "srd": sr, "e": e}))
            reqs.append(("guessedwords %s | %s" % (cl.cps(sr + e), cl.cps(st + e)),
                         {"op": "guessedwords", "stem": st, "srd": sr, "e": e}))
    # kanji stems whose *reading* looks like a verb/adjective pattern (kana absorbed by the kanji)
    lookalike = ["きたな", "おさな", "つたな", "こ", "すくな", "あぶな", "かな", "しな", "たべな", "きれ", "い", "な"]
    for _ in range(3000 if thorough else 400):
        st = "".join(rng.pick("汚幼拙来少危書食") for _ in range(1 + rng.below(2)))
        sr = rng.pick(lookalike) if rng.chance(1, 2) else "".join(rng.pick(HIRA) for _ in range(1 + rng.below(3)))
        e = rng.pick(["い", "だ", "ない", "かない", "べない", "しない", "くない", "", "る", "きい"])
        reqs.append(("newguessed %s | %s" % (cl.cps(sr + e), cl.cps(st + e)),
                     {"op": "newguessed", "stem": st, "srd": sr, "e": e}))
    # malformed / inconsistent pairs (totality of the model: both sides must agree on panics)
    for rd, w in [("あ", "かない"), ("", "ない"), ("a", "高い"), ("たかい", ""), ("é", "かだ"), ("きたない", "汚い"),
                  ("こない", "来ない"), ("ab", "あい"), ("かa", "書かない")]:
        reqs.append(("newguessed %s | %s" % (cl.cps(rd), cl.cps(w)), {"op": "newguessed-odd", "rd": rd, "w": w}))
    for sp, rd, st in [("N.proper", "とうきょう", "東京"), ("V.godan.12459", "か", "書"), ("ADJ", "たか", "高"),
                       ("V.hen.12459", "く", "来"), ("V.kamiIchidan.12469", "あい", "愛")]:
        reqs.append(("words %s | %s | %s" % (sp, cl.cps(rd), cl.cps(st)), {"op": "words", "sp": sp}))
        reqs.append(("wordsref %s | %s | %s" % (sp, cl.cps(rd), cl.cps(st)), {"op": "wordsref", "sp": sp}))
    # both conversions of an entry to words (by value and by reference) over every class/row, with stems whose reading
    # ends in the kana the irregular rows look at (い for カ行五段, a single kana for 一段, く for カ変)
    for cls in CLASSES:
        for row in list(ROWS):
            for rd, st in [("か", "書"), ("い", "行"), ("あるい", "歩"), ("く", "来"), ("み", "見"), ("たべ", "食"), ("", "")]:
                for op in ("words", "wordsref"):
                    reqs.append(("%s %s | %s | %s" % (op, tok(cls, row), cl.cps(rd), cl.cps(st)), {"op": op, "sp": tok(cls, row)}))
    for sp in ["ADJ", "ADJV", "N.common", "N.proper", "ADV", "AFX.prefix", "AFX.suffix", "P.case", "CNT"]:
        for op in ("words", "wordsref"):
            reqs.append(("%s %s | %s | %s" % (op, sp, cl.cps("たか"), cl.cps("高")), {"op": op, "sp": sp}))
    return reqs


def oracle(run, reqs, impl):
    fails = []
    guessed = {}
    n = {"aligned": 0, "row": 0, "core": 0, "guess_conjugable": 0, "guess_accepts": 0}
    # the two conversions of one entry must agree (C12: the words of an entry do not depend on who asks)
    byval = {}
    for (line, m), r in zip(reqs, impl):
        if m["op"] == "words":
            byval[line.split(" ", 1)[1]] = r
    for (line, m), r in zip(reqs, impl):
        if m["op"] == "wordsref" and byval.get(line.split(" ", 1)[1]) != r:
            fails.append(("ref-conversion-differs", {"kind": "ref-conversion-differs"},
                          {"entry": [line.split(" ", 1)[1].split(" | ")[0]] + [cl.from_cps(x) for x in line.split(" ", 1)[1].split(" | ")[1:]],
                           "From<Entry>": byval.get(line.split(" ", 1)[1], "")[:200], "From<&Entry>": r[:200]}))
    for (line, m), r in zip(reqs, impl):
        if m["op"] == "conj" and r != "panic":
            forms = common.decode_fields(r)
            cls, row, st, rd = m["cls"], m["row"], m["stem"], m["rd"]
            okuri = []
            for s2, r2 in forms:
                ok = None
                if cls == "hen" and row == "カ":
                    if r2.startswith(rd[:-1]) and s2.startswith(st):
                        o = r2[len(rd) - 1:]
                        if s2 == st + o[1:]:
                            ok = o
                elif s2.startswith(st) and r2.startswith(rd) and s2[len(st):] == r2[len(rd):]:
                    ok = s2[len(st):]
                n["aligned"] += 1
                if ok is None:
                    fails.append(("aligned", {"kind": "aligned", "cls": cls, "row": row},
                                  {"class": cls, "row": row, "stem": st, "reading": rd, "form": [s2, r2]}))
                    continue
                okuri.append(ok)
                if ok and row in GRADES:
                    n["row"] += 1
                    if ok[0] not in "".join(GRADES[row]) and ok[0] not in euphonic_of(cls, row, rd):
                        fails.append(("row", {"kind": "row", "cls": cls, "row": row},
                                      {"class": cls, "row": row, "stem": st, "stem_reading": rd, "okurigana": ok, "form": [s2, r2]}))
            if row in GRADES and forms:
                n["core"] += 1
                if not core_ok(cls, row, okuri):
                    fails.append(("core", {"kind": "core", "cls": cls, "row": row},
                                  {"class": cls, "row": row, "reading": rd, "okurigana": okuri}))
        elif m["op"] == "guessform" and r.startswith("ok V."):
            guessed[m["ch"]] = r[3:]
    return fails, guessed, n


def run(run, replay=None):
    run.assumptions += ["Gojūon rows, the euphonic set {っ,ん,い} and the core forms per class are specification data "
                        "(Chokan.Lemmas.Dic; mirrored in tools/props/c12.py for the implementation-side oracle)",
                        "Rust String/char UTF-8 behaviour is modelled by utf8Len; HashSet results are compared as sorted sets"]
    run.regenerate(["Dic"])
    if run.build_props():
        run.audit()
    reqs = gen(run)
    lines = [l for l, _ in reqs]
    impl, model = common.run_both(run, lines, "dic ops")
    if impl is None:
        return
    dis = common.diff(run, lines, impl, model, "dic")
    fails, guessed, n = oracle(run, reqs, impl)
    # second round: every guessable speech must conjugate (no panic) and produce the pre-ない form
    reqs2 = []
    for ch, token in sorted(guessed.items()):
        for st, sr in [("書", "か"), ("", ""), ("見", "みき")]:
            reqs2.append(("conj %s | %s | %s" % (token, cl.cps(st), cl.cps(sr)), {"ch": ch, "token": token, "stem": st, "rd": sr}))
    lines2 = [l for l, _ in reqs2]
    impl2, model2 = common.run_both(run, lines2, "guess conj")
    if impl2 is not None:
        dis += common.diff(run, lines2, impl2, model2, "guess conj")
        for (l, m), r in zip(reqs2, impl2):
            n["guess_conjugable"] += 1
            if r == "panic":
                fails.append(("guess-conjugable", {"kind": "guess-conjugable", "char": m["ch"]},
                              {"guessed_from": m["ch"] + "ない", "speech": m["token"], "stem": m["stem"], "reading": m["rd"],
                               "result": "panic in to_forms"}))
            elif m["rd"]:
                forms = common.decode_fields(r)
                if [m["stem"] + m["ch"], m["rd"] + m["ch"]] not in forms:
                    fails.append(("guess-stem", {"kind": "guess-stem", "char": m["ch"]},
                                  {"guessed_from": m["ch"] + "ない", "speech": m["token"], "missing_form": m["stem"] + m["ch"]}))
    for (l, m), r in zip(reqs, impl):
        if m["op"] == "newguessed":
            w = m["stem"] + m["e"]
            k = 3 if (w.endswith("ない") and len(w) >= 3 and w[-3] in guessed) else (1 if w[-1:] in ("い", "だ") else 0)
            if k > len(m["e"]):
                continue        # the guesser cuts into the stem: outside the property's well-formed pairs
            n["guess_accepts"] += 1
            if r == "panic":
                fails.append(("guess-accepts", {"kind": "guess-accepts", "ending": m["e"]},
                              {"reading": m["srd"] + m["e"], "word": m["stem"] + m["e"], "result": "panic in new_guessed"}))
            else:
                line = cl.from_cps(r[3:].split(" ; ")[0])
                rd, st = line.split("\t")[0], line.split("\t")[1]
                full_r, full_w = m["srd"] + m["e"], m["stem"] + m["e"]
                if not (full_w.startswith(st) and full_r.startswith(rd) and full_w[len(st):] == full_r[len(rd):]):
                    fails.append(("guess-aligned", {"kind": "guess-aligned", "ending": m["e"]},
                                  {"reading": full_r, "word": full_w, "entry": line}))
        elif m["op"] == "guessedwords" and r == "panic" and impl[lines.index(l) - 1] != "panic":
            fails.append(("guess-conjugable", {"kind": "guess-conjugable", "char": m["e"][:1]},
                          {"reading": m["srd"] + m["e"], "word": m["stem"] + m["e"], "result": "panic converting the guessed entry to words"}))
    seen = set()
    for kind, key, w in fails:
        k = json.dumps(key, sort_keys=True, ensure_ascii=False)
        if k in seen:
            continue
        seen.add(k)
        run.failures.append(cl.Failure("oracle", "dic crate violates C12 (%s): %s" % (kind, json.dumps(w, ensure_ascii=False)[:200]),
                                       witness=w, key=key))
    if dis and not fails:
        run.failures.append(cl.Failure("correspondence", "model Chokan.Model.Dic and the dic crate disagree on %d requests, e.g. %s"
                                       % (len(dis), json.dumps(dis[0], ensure_ascii=False)), detail=json.dumps(dis[:5], ensure_ascii=False)))
    allreq = reqs + (reqs2 if impl2 is not None else [])
    run.cov.update({
        "evaluations": len(allreq),
        "distinct_nontrivial": len({l for (l, m), r in zip(reqs, impl) if r not in ("ok", "ok none")}),
        "rule": "conj over 7 classes x 18 rows (14 grammar rows + 4 odd) x readings incl. empty/1-byte/…い; guess_form over "
                "U+3040–30FF exhaustively + random scalars; new_guessed on stem+ending pairs for every kana+ない, い, だ; "
                "malformed pairs. non-trivial = reply other than the trivial `ok`/`ok none`; distinct by request line",
        "samples": [{"request": m, "impl": r} for (l, m), r in list(zip(reqs, impl))[:2] + list(zip(reqs, impl))[-2:]],
        "oracle_checks": n, "oracle_failures": len(fails),
        "panics_observed": sum(1 for r in impl if r == "panic"),
    })
