"""C13 — the server serves under every runtime thread configuration."""
import json
import os
import shutil
import time

import checklib as cl
from props import server_common as S


def run(run, replay=None):
    run.assumptions += ["tokio's scheduler, work stealing and blocking pool are not modelled; only worker occupancy is (partial)",
                        "the model's prediction for each worker count is compared with the real binary started with TOKIO_WORKER_THREADS"]
    meta = run.regenerate(["Server"])
    if run.build_props():
        run.audit()
    occupied = (meta["info"].get("Server") or {}).get("workers_occupied", 0)
    bindir = S.build_binaries(run)
    if bindir is None:
        return
    wd = S.workdir("c13")
    dic = S.make_dictionary(bindir, wd)
    ks = list(range(1, 17)) if run.tier == "thorough" else [1, 2, 3, 4, 5, 8, 16]
    fails = []
    obs = []
    dis = []
    for k in ks:
        for with_dir in ([True, False] if run.tier == "thorough" else [True]):
            ud = os.path.join(wd, "user-%d-%d" % (k, with_dir)) if with_dir else None
            srv = S.Server(bindir, dic, ud, workers=k)
            try:
                listening = srv.wait_listening()
                res = srv.conv("くるまで", timeout=5.0)
                answered = res[0] == "ok"
                registered = saved = None
                if answered:
                    srv.rpc("RegisterWord", {"kind": "CommonNoun", "reading": "てすと", "word": "試験"})
                    registered = S.wait_until(lambda: "試験" in (S.texts(srv.conv("てすと")) or []), 3.0) is not None
                    if with_dir:
                        saved = S.wait_until(lambda: os.path.exists(os.path.join(ud, "user.dic")) and
                                             "試験" in open(os.path.join(ud, "user.dic"), encoding="utf-8").read(), 4.0) is not None
                sessions_ok = None
                if answered:
                    # recording sessions: conversions sent over several concurrent connections (so that every worker serves
                    # some) and left unconfirmed get pairwise different ids, and confirming the earliest still learns its word
                    import threading
                    got = []
                    lock = threading.Lock()

                    def many(i):
                        for j in range(6):
                            r_ = srv.conv(["くるまで", "やまだ", "ほん"][(i + j) % 3], timeout=5.0)
                            if r_[0] == "ok":
                                with lock:
                                    got.append((r_[1]["session_id"], S.texts(r_)))
                    first = srv.conv("くるまで", timeout=5.0)
                    ths = [threading.Thread(target=many, args=(i,)) for i in range(6)]
                    for t_ in ths:
                        t_.start()
                    for t_ in ths:
                        t_.join(30)
                    ids = [x for x, _ in got] + ([first[1]["session_id"]] if first[0] == "ok" else [])
                    sessions_ok = len(ids) == len(set(ids)) and len(ids) >= 30
                    if first[0] == "ok" and first[1]["candidates"]:
                        want = first[1]["candidates"][0]["candidate"]
                        srv.rpc("UpdateFrequency", {"session_id": first[1]["session_id"], "candidate_id": "0"})
                        dmp = srv.dump()
                        learned = [w for _, w, n_, _ in (dmp or {"frequencies": []})["frequencies"]]
                        # the learned word must come from the confirmed session's own candidate list
                        if dmp is not None and not any(want.startswith(w) for w in learned):
                            sessions_ok = False
                o = {"workers": k, "user_dir": with_dir, "listening": listening, "answers": answered,
                     "registration_applied": registered, "periodic_save": saved, "sessions_recorded": sessions_ok}
                obs.append(o)
                predicted = occupied < k
                if predicted != answered:
                    dis.append(dict(o, model_predicts_serving=predicted))
                if not answered:
                    fails.append(("never-answers", {"kind": "never-answers"}, o))
                elif registered is False or saved is False or sessions_ok is False:
                    fails.append(("duty-not-running", {"kind": "duty-not-running", "workers": k}, o))
            finally:
                srv.stop()
    # requests keep arriving WHILE the periodic save runs, with as few workers as clients: the duty must not need a free worker
    # (or anything else a request handler can hold) to finish, and the handlers must not wait for the duty for ever
    import threading as _th
    for k in ([1, 2, 3] if run.tier == "thorough" else [1, 2]):
        ud = os.path.join(wd, "busy-%d" % k)
        srv = S.Server(bindir, dic, ud, workers=k, save_secs=1)
        try:
            if not srv.wait_listening():
                continue
            stop_at = time.time() + (6.0 if run.tier == "thorough" else 3.2)
            done = [0] * k
            errs = []

            def hammer(i):
                while time.time() < stop_at:
                    r_ = srv.conv(["くるまで", "やまだ", "しんかこか"][(i + done[i]) % 3], timeout=6.0)
                    if r_[0] != "ok":
                        errs.append(r_[0])
                        return
                    if done[i] % 5 == 0 and r_[1]["candidates"]:
                        srv.rpc("UpdateFrequency", {"session_id": r_[1]["session_id"], "candidate_id": "0"}, timeout=6.0)
                    done[i] += 1
            ths = [_th.Thread(target=hammer, args=(i,)) for i in range(k)]
            for t_ in ths:
                t_.start()
            for t_ in ths:
                t_.join(20)
            # a registration immediately followed by a conversion on the SAME connection (no pause for the updater to be
            # re-scheduled in): the handlers must not wait for a duty that needs a worker they occupy
            import http.client as _hc
            b2b_err = None
            try:
                conn = _hc.HTTPConnection("127.0.0.1", srv.port, timeout=6.0)
                for j in range(40 if run.tier != "thorough" else 150):
                    for m_, p_ in (("RegisterWord", {"kind": "CommonNoun", "reading": "てすと", "word": "連続%d" % j}),
                                   ("GetCandidates", {"input": "てすと"})):
                        conn.request("POST", "/", body=json.dumps({"jsonrpc": "2.0", "id": j, "method": m_, "params": p_}).encode(),
                                     headers={"Content-Type": "application/json"})
                        conn.getresponse().read()
                conn.close()
            except Exception as e_:        # a timeout here is the observation, not an infrastructure problem
                b2b_err = "%s after %d back-to-back rounds" % (type(e_).__name__, j)
            if b2b_err:
                errs.append(b2b_err)
            # the same two requests written to the socket in ONE segment (HTTP/1.1 pipelining): the conversion is read the moment the
            # registration has been answered — the tightest gap a client can produce
            import socket as _so

            def _req(m_, p_, id_):
                body_ = json.dumps({"jsonrpc": "2.0", "id": id_, "method": m_, "params": p_}).encode()
                return (b"POST / HTTP/1.1\r\nHost: 127.0.0.1\r\nContent-Type: application/json\r\nContent-Length: "
                        + str(len(body_)).encode() + b"\r\n\r\n" + body_)

            def _read_response(sock_, buf_):
                while b"\r\n\r\n" not in buf_:
                    chunk_ = sock_.recv(65536)
                    if not chunk_:
                        return None, buf_
                    buf_ += chunk_
                head_, rest_ = buf_.split(b"\r\n\r\n", 1)
                n_ = 0
                for hl_ in head_.split(b"\r\n")[1:]:
                    if hl_.lower().startswith(b"content-length:"):
                        n_ = int(hl_.split(b":", 1)[1])
                while len(rest_) < n_:
                    chunk_ = sock_.recv(65536)
                    if not chunk_:
                        return None, rest_
                    rest_ += chunk_
                return rest_[:n_], rest_[n_:]

            pipe_err, pipe_rounds, pipelining = None, 0, True
            try:
                sock_ = _so.create_connection(("127.0.0.1", srv.port), timeout=6.0)
                buf_ = b""
                for j in range(40 if run.tier != "thorough" else 150):
                    sock_.sendall(_req("RegisterWord", {"kind": "CommonNoun", "reading": "てすと", "word": "管%d" % j}, 2 * j)
                                  + _req("GetCandidates", {"input": "てすと"}, 2 * j + 1))
                    for _ in range(2):
                        r_, buf_ = _read_response(sock_, buf_)
                        if r_ is None:
                            pipelining = False       # the server closed the connection: it does not pipeline; nothing is concluded
                            break
                    if not pipelining:
                        break
                    pipe_rounds += 1
                sock_.close()
            except _so.timeout:
                pipe_err = "timeout after %d pipelined register+convert rounds" % pipe_rounds
            except OSError:
                pipelining = False
            if pipe_err:
                errs.append(pipe_err)
            probe = srv.conv("くるまで", timeout=5.0)
            srv.rpc("RegisterWord", {"kind": "CommonNoun", "reading": "てすと", "word": "多忙"}, timeout=5.0)
            saved = S.wait_until(lambda: os.path.exists(os.path.join(ud, "user.dic")) and
                                 "多忙" in open(os.path.join(ud, "user.dic"), encoding="utf-8", errors="replace").read(), 6.0) is not None
            o = {"workers": k, "clients_converting_during_saves": k, "conversions_answered": sum(done), "errors": errs[:3],
                 "answers_afterwards": probe[0] == "ok", "periodic_save_afterwards": saved, "user_dir": True,
                 "pipelined_rounds": pipe_rounds, "pipelining": pipelining}
            obs.append(o)
            if errs or probe[0] != "ok":
                fails.append(("never-answers", {"kind": "never-answers", "phase": "requests-during-saves"}, o))
            elif not saved:
                fails.append(("duty-not-running", {"kind": "duty-not-running", "workers": k, "phase": "requests-during-saves"}, o))
        finally:
            srv.stop()
    for kind, key, w in fails[:6]:
        run.failures.append(cl.Failure("oracle", "server violates C13 (%s): %s" % (kind, json.dumps(w)), witness=w, key=key))
    if dis and not fails:
        run.failures.append(cl.Failure("correspondence", "worker-occupancy model and the real binary disagree: %s" % json.dumps(dis[:3])))
    run.cov.update({"evaluations": len(obs), "distinct_nontrivial": len(obs),
                    "rule": "one real server per TOKIO_WORKER_THREADS value (quick: 1,2,3,4,5,8,16; thorough: 1..16 with and without -u); "
                            "observed: answers a conversion within 5 s, RegisterWord becomes visible, user.dic appears after the save "
                            "period, 37 unconfirmed conversions over 6 concurrent connections get different session ids and the earliest is still confirmable; "
                            "period; each compared with the model's prediction occupied < workers. every configuration is non-trivial",
                    "samples": obs[:3], "model_disagreements": len(dis), "oracle_failures": len(fails),
                    "workers_occupied_extracted": occupied})
    shutil.rmtree(wd, ignore_errors=True)
