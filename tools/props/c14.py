"""C14 — concurrent clients never deadlock and see sequentially explainable states."""
import json
import shutil
import threading
import time

import checklib as cl
from props import server_common as S

FORMS = [("かく", "書く"), ("かか", "書か"), ("かき", "書き"), ("かけ", "書け"), ("かこ", "書こ"), ("かい", "書い")]


def run(run, replay=None):
    run.assumptions += ["that each modelled step is one critical section is validated by this driver and the translator's lock "
                        "inventory, not proved; the OS scheduler is not modelled (partial)",
                        "sequential explainability is checked for registrations (atomic, monotone visibility of all conjugated "
                        "forms) and confirmations (no lost update) rather than by a general linearizability search"]
    run.regenerate(["Server", "Kkc", "Dic"])
    if run.build_props():
        run.audit()
    S.conc_check(run)
    bindir = S.build_binaries(run)
    if bindir is None:
        return
    wd = S.workdir("c14")
    dic = S.make_dictionary(bindir, wd)
    thorough = run.tier == "thorough"
    fails = []
    obs = []
    configs = [(4, {}), (8, {"CHOKAN_VERIF_DELAY_UPDATER_DICT": "30"}), (16, {"CHOKAN_VERIF_DELAY_CONV_LOCK2": "2", "CHOKAN_VERIF_DELAY_CONFIRM_LOCK": "2"})]
    if thorough:
        configs += [(32, {"CHOKAN_VERIF_DELAY_UPDATER": "20", "CHOKAN_VERIF_DELAY_CONV_LOCK": "1"}), (1, {}), (2, {"CHOKAN_VERIF_DELAY_UPDATER_DICT": "100"})]
    for clients, env in configs:
        srv = S.Server(bindir, dic, None, workers=4, env=env)
        if not srv.wait_listening():
            fails.append(("start", {"kind": "start"}, {}))
            continue
        stop = threading.Event()
        log = []          # (start time, end time, reading, seen form?)
        errors = []
        confirmed = [0]
        lock = threading.Lock()

        def reader(i):
            k = 0
            while not stop.is_set():
                rd, w = FORMS[(i + k) % len(FORMS)]
                k += 1
                t0 = time.time()
                res = srv.conv(rd, timeout=10.0)
                t1 = time.time()
                if res[0] != "ok":
                    errors.append(("conversion", res[0], t1 - t0))
                    return
                with lock:
                    log.append((t0, t1, rd, w in [c["candidate"] for c in res[1]["candidates"]]))

        def confirmer(i):
            while not stop.is_set():
                res = srv.conv("くるまで", timeout=10.0)
                if res[0] != "ok":
                    errors.append(("conversion", res[0], 0))
                    return
                st, _ = srv.rpc("UpdateFrequency", {"session_id": res[1]["session_id"], "candidate_id": "0"}, timeout=10.0)
                if st != "ok":
                    errors.append(("confirmation", st, 0))
                    return
                with lock:
                    confirmed[0] += 1

        def registrar(i):
            k = 0
            while not stop.is_set():
                k += 1
                st_, _ = srv.rpc("RegisterWord", {"kind": "CommonNoun", "reading": "てすと", "word": "語%d_%d" % (i, k)}, timeout=10.0)
                if st_ != "ok":
                    errors.append(("registration", st_, 0))
                    return

        def affix_confirmer(i):
            while not stop.is_set():
                res = srv.conv("しんかこか", timeout=10.0)
                if res[0] != "ok":
                    errors.append(("conversion", res[0], 0))
                    return
                ts = [c["candidate"] for c in res[1]["candidates"]]
                cid = str(ts.index("新過去か")) if "新過去か" in ts else "0"
                st_, _ = srv.rpc("UpdateFrequency", {"session_id": res[1]["session_id"], "candidate_id": cid}, timeout=10.0)
                if st_ != "ok":
                    errors.append(("confirmation", st_, 0))
                    return

        ths = [threading.Thread(target=reader, args=(i,)) for i in range(max(1, clients // 2))] + \
              [threading.Thread(target=confirmer, args=(i,)) for i in range(max(1, clients // 2))]
        # the registration flood starts after the observed registration was sent, so that the observed entry is ahead
        # of it in the updater's FIFO (with an injected per-entry delay the flood would otherwise starve the observation)
        late = [threading.Thread(target=registrar, args=(i,)) for i in range(max(1, clients // 4))] + \
               [threading.Thread(target=affix_confirmer, args=(i,)) for i in range(max(1, clients // 4))]
        for t in ths:
            t.start()
        time.sleep(0.3)
        t_reg0 = time.time()
        st, _ = srv.rpc("RegisterWord", {"kind": "Guess", "reading": "かかない", "word": "書かない"}, timeout=10.0)
        t_reg1 = time.time()
        for t in late:
            t.start()
        ths += late
        time.sleep(2.0 if not thorough else 5.0)
        stop.set()
        for t in ths:
            t.join(30)
        hung = [t for t in ths if t.is_alive()]
        d = srv.dump()
        srv.stop()
        o = {"clients": clients, "delays": env, "conversions": len(log), "confirmations": confirmed[0], "errors": errors[:3],
             "hung_threads": len(hung)}
        obs.append(o)
        if hung or errors:
            fails.append(("request-did-not-complete", {"kind": "request-did-not-complete"}, o))
            continue
        # no update requested after a response can be reflected in it: nothing visible before the registration was sent
        early = [x for x in log if x[1] < t_reg0 and x[3]]
        if early:
            fails.append(("visible-before-registered", {"kind": "visible-before-registered"}, dict(o, example=early[0][2])))
        # atomic + monotone: once any form was seen by a conversion that ENDED at time t, every conversion that STARTED after t
        # sees its own form too (all forms of the entry appear together and stay)
        seen_t = min([x[1] for x in log if x[3]] or [None]) if any(x[3] for x in log) else None
        if seen_t is not None:
            late_blind = [x for x in log if x[0] > seen_t and not x[3]]
            if late_blind:
                fails.append(("half-visible-entry", {"kind": "half-visible-entry"},
                              dict(o, first_seen_at=seen_t - t_reg0, blind_form=late_blind[0][2], started_at=late_blind[0][0] - t_reg0)))
        elif st == "ok":
            fails.append(("registration-never-visible", {"kind": "registration-never-visible"}, o))
        got = sum(c for _, w, c, _ in (d or {"frequencies": []})["frequencies"] if w == "車")
        if got != confirmed[0]:
            fails.append(("lost-update", {"kind": "lost-update"}, dict(o, learned_count=got)))
    # registrations acknowledged one after the other take effect in that order: when they wait together in the updater's
    # queue the answers are those of a server that received them one at a time (each applied before the next is sent), and
    # those of a server restarted from its own user.dic
    import os
    seq = [("こうか", ["効果", "硬貨", "高価", "校歌"]), ("きしゃ", ["記者", "汽車", "貴社"])]

    def register_all(server, settle):
        n_ = 0
        for rd, ws in seq:
            for w_ in ws:
                server.rpc("RegisterWord", {"kind": "CommonNoun", "reading": rd, "word": w_}, timeout=10.0)
                n_ += 1
                if settle:
                    S.wait_until(lambda: (lambda d_: d_ is not None and len(d_["user_entries"]) >= n_)(server.dump()), 10.0)
        S.wait_until(lambda: (lambda d_: d_ is not None and len(d_["user_entries"]) >= n_)(server.dump()), 15.0)
        return {rd: S.texts(server.conv(rd, timeout=10.0)) or [] for rd, _ in seq}
    ref = S.Server(bindir, dic, None, workers=4)
    try:
        reference = register_all(ref, True) if ref.wait_listening() else None
    finally:
        ref.stop()
    ud = os.path.join(wd, "order-user")
    srv = S.Server(bindir, dic, ud, workers=4, save_secs=1, env={"CHOKAN_VERIF_DELAY_UPDATER": "200"})
    try:
        if reference is not None and srv.wait_listening():
            live = register_all(srv, False)
            o = {"registered_in_order": seq, "one_at_a_time_reference": reference, "queued_together": live}
            if live != reference:
                fails.append(("registration-order", {"kind": "registration-order"}, o))
            time.sleep(2.5)
            srv.stop()
            srv = S.Server(bindir, dic, ud, workers=4, save_secs=1)
            if srv.wait_listening():
                again = {rd: S.texts(srv.conv(rd, timeout=10.0)) or [] for rd, _ in seq}
                if again != live:
                    fails.append(("registration-order", {"kind": "registration-order", "when": "restart"}, dict(o, after_restart=again)))
    finally:
        srv.stop()
    # the interleaving model WITH data against the real server at an intermediate state: the updater is held between its
    # two critical sections (hook), so the user dictionary already holds a registered word that conversions do not offer
    # yet — a state the atomic model does not have and the fine-grained model (Model/Fine) predicts
    fine = None
    for (kind_, rd_, w_) in [("CommonNoun", "てすと", "試験"), ("Guess", "かかない", "書かない")]:
        srv = S.Server(bindir, dic, None, workers=4, env={"CHOKAN_VERIF_DELAY_UPDATER_DICT": "1500"})
        try:
            if not srv.wait_listening():
                continue
            probe = rd_ if kind_ == "CommonNoun" else "かか"
            t0 = time.time()
            st_, _ = srv.rpc("RegisterWord", {"kind": kind_, "reading": rd_, "word": w_}, timeout=10.0)
            # wait until the updater's first section has happened (the entry is in the user dictionary), then look at once
            d_mid, t_prev = None, time.time()
            while time.time() - t0 < 5.0:
                t_poll = time.time()
                d_mid = srv.dump()
                if d_mid and d_mid["user_entries"]:
                    break
                t_prev = t_poll
                time.sleep(0.02)
            mid = S.texts(srv.conv(probe, timeout=10.0)) or []
            # the entry was added after t_prev; the hook holds the updater for 1.5 s from then: were we inside the window?
            late = (time.time() - t_prev) > 1.2 or not (d_mid and d_mid["user_entries"])
            time.sleep(max(0.0, 1.7 - (time.time() - t_prev)))
            # the updater's second section: wait (up to 8 s) until the answer changes
            S.wait_until(lambda: (S.texts(srv.conv(probe, timeout=10.0)) or []) != mid or None, 8.0, step=0.1)
            after = S.texts(srv.conv(probe, timeout=10.0)) or []
            real = "ok between_user=%d between=%s after=%s answered=true" % (
                len(d_mid["user_entries"]) if d_mid else -1, ",".join(S.dot(t) for t in mid), ",".join(S.dot(t) for t in after))
            out = run.run_driver(["sload %s | %s | %s | 0" % (cl.cps(S.dic_text(S.STD)), cl.cps(S.dic_text(S.ANC)), cl.cps(S.dic_text(S.TANKAN))),
                                  "sfine-updater-split %s %s | %s | %s" % (kind_, cl.cps(rd_), cl.cps(w_), cl.cps(probe))])
            if out is None or st_ != "ok":
                continue
            fine = {"registration": [kind_, rd_, w_], "probe": probe, "real": real, "model": out[1], "looked_inside_window": not late}
            obs.append({"clients": 1, "delays": {"CHOKAN_VERIF_DELAY_UPDATER_DICT": "1500"}, "conversions": 2, "confirmations": 0,
                        "errors": [], "hung_threads": 0, "fine_model": fine})
            # the registration itself (oracle, independent of the model): once the updater is through, the registered form is
            # offered — also to a client that asked in between
            expect_word = w_ if kind_ == "CommonNoun" else w_[:-2]
            if expect_word not in after:
                fails.append(("registration-never-visible", {"kind": "registration-never-visible", "phase": "asked-in-between"},
                              {"registration": [kind_, rd_, w_], "probe": probe, "asked_while_updater_was_between_its_sections": mid,
                               "asked_again_8s_later": after, "user_entries": d_mid and d_mid["user_entries"]}))
            if not late and out[1] != real:
                run.failures.append(cl.Failure("correspondence", "the interleaving model with data (Model/Fine) and the real server disagree on the "
                                               "state between the updater's two critical sections: %s" % json.dumps(fine, ensure_ascii=False)[:400],
                                               detail=json.dumps(fine, ensure_ascii=False)))
        finally:
            srv.stop()
    run.cov["fine_model_intermediate_state"] = fine
    for kind, key, w in fails[:6]:
        run.failures.append(cl.Failure("oracle", "server violates C14 (%s): %s" % (kind, json.dumps(w, ensure_ascii=False)[:300]), witness=w, key=key))
    run.cov.update({"evaluations": sum(o["conversions"] + o["confirmations"] for o in obs), "distinct_nontrivial": len(obs),
                    "rule": "per configuration (number of concurrent connections, delay hooks at lock/hand-off points): half of the clients "
                            "convert the six conjugated forms of a verb registered meanwhile, the other half run conversion+confirmation "
                            "pairs; checked: every request completes (10 s watchdog), forms become visible together and stay visible, "
                            "nothing is visible before the registration was requested, the learned count equals the acknowledged "
                            "confirmations; plus homophones registered one after the other while the updater is delayed: the answers equal those of a "
                            "server given the same registrations one at a time, and those after a restart. every configuration is non-trivial",
                    "samples": obs[:2], "oracle_failures": len(fails)})
    shutil.rmtree(wd, ignore_errors=True)
