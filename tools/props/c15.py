"""C15 — an acknowledged conversion can always be confirmed; no learning is silently lost."""
import json
import shutil
import threading

import checklib as cl
from props import server_common as S


def pairs(srv, n, inp, out, idx):
    ok = 0
    for _ in range(n):
        res = srv.conv(inp)
        if res[0] != "ok" or not res[1]["candidates"]:
            continue
        st, _ = srv.rpc("UpdateFrequency", {"session_id": res[1]["session_id"], "candidate_id": "0"})
        if st == "ok":
            ok += 1
    out[idx] = ok


def run(run, replay=None):
    run.assumptions += ["thread interleavings are sampled (back-to-back request pairs, 1–16 concurrent clients, delay hooks), not "
                        "enumerated; the theorem is about the model's schedules (partial)"]
    run.regenerate(["Server", "Kkc", "Dic"])
    if run.build_props():
        run.audit()
    S.conc_check(run)
    bindir = S.build_binaries(run)
    if bindir is None:
        return
    wd = S.workdir("c15")
    dic = S.make_dictionary(bindir, wd)
    fails = []
    obs = []
    thorough = run.tier == "thorough"
    configs = [(1, 150, {}), (4, 60, {}), (8, 40, {"CHOKAN_VERIF_DELAY_CONFIRM_LOCK": "1"}), (2, 60, {"CHOKAN_VERIF_DELAY_CONV_LOCK2": "1"})]
    if thorough:
        configs += [(16, 100, {}), (32, 40, {}), (1, 1500, {})]
    for clients, n, env in configs:
        srv = S.Server(bindir, dic, None, workers=4, env=env)
        try:
            if not srv.wait_listening():
                fails.append(("start", {"kind": "start"}, {"clients": clients}))
                continue
            out = [0] * clients
            ths = [threading.Thread(target=pairs, args=(srv, n, "くるまで", out, i)) for i in range(clients)]
            for t in ths:
                t.start()
            for t in ths:
                t.join(120)
            d = srv.dump()
            got = sum(c for _, w, c, _ in (d or {"frequencies": []})["frequencies"] if w == "車")
            acknowledged = sum(out)
            o = {"clients": clients, "pairs_per_client": n, "acknowledged_confirmations": acknowledged, "learned_count": got,
                 "live_sessions": d and d["sessions"], "delays": env}
            obs.append(o)
            if got != acknowledged:
                fails.append(("confirmation-lost", {"kind": "confirmation-lost"}, o))
            # registrations: every acknowledged RegisterWord is applied exactly once
            regs = 0
            for i in range(20):
                st, _ = srv.rpc("RegisterWord", {"kind": "CommonNoun", "reading": "てすと", "word": "試験%d" % i})
                regs += st == "ok"
            ok = S.wait_until(lambda: (lambda x: x is not None and len(x["user_entries"]) >= regs)(srv.dump()), 4.0)
            d2 = srv.dump()
            entries = d2["user_entries"] if d2 else []
            if len(entries) != regs or len(set(entries)) != regs:
                fails.append(("registration-not-applied-once", {"kind": "registration-not-applied-once"},
                              {"acknowledged": regs, "user_entries": len(entries), "distinct": len(set(entries))}))
        finally:
            srv.stop()
    # a large learned table: confirmations of many different words by concurrent clients (a read-copy-update of the table
    # outside its lock loses increments only when two confirmations overlap; the window grows with the table)
    kana = "あいうえおかきくけこさしすせそたちつてとなにぬねのはひふへほまみむめもやゆよらりるれろわ"
    nwords = 1500 if thorough else 900
    big = [(kana[i % 44] + kana[(i // 44) % 44] + kana[(7 * i + 3) % 44] + "ん", "名%d" % i, "一般名詞") for i in range(nwords)]
    bigdic = S.make_dictionary(bindir, S.workdir("c15big"), std=S.STD + big)
    srv = S.Server(bindir, bigdic, None, workers=8)
    try:
        if bigdic is not None and srv.wait_listening():
            def learn(words, out, idx):
                ok = 0
                for rd, w, _ in words:
                    res = srv.conv(rd)
                    ts = S.texts(res) or []
                    if w not in ts:
                        continue
                    st, _ = srv.rpc("UpdateFrequency", {"session_id": res[1]["session_id"], "candidate_id": str(ts.index(w))})
                    ok += st == "ok"
                out[idx] = ok
            first = [0]
            learn(big, first, 0)                       # sequential: fills the table
            clients = 8
            out = [0] * clients
            per = 120 if thorough else 70
            ths = [threading.Thread(target=learn, args=([big[(i * 131 + j * 17) % nwords] for j in range(per)], out, i)) for i in range(clients)]
            for t in ths:
                t.start()
            for t in ths:
                t.join(180)
            d = srv.dump()
            total = sum(c for _, w, c, _ in (d or {"frequencies": []})["frequencies"] if w.startswith("名"))
            o = {"clients": clients, "pairs_per_client": per, "table_entries": first[0], "acknowledged_confirmations": first[0] + sum(out),
                 "learned_count": total, "scenario": "concurrent confirmations of different words on a table of %d learned words" % first[0]}
            obs.append(o)
            if total != first[0] + sum(out) or first[0] < nwords // 2:
                fails.append(("confirmation-lost", {"kind": "confirmation-lost", "after": "concurrent-large-table"}, o))
    finally:
        srv.stop()
    # arbitrary delay: the clock (hook) jumps between the response and the confirmation while other clients convert
    import os
    nowf = os.path.join(wd, "now")
    # (the pauses include one LONGER than the three-day expiry: the count of a word confirmed now is fresh whatever the age of the
    # conversion that offered it, and it must not take the other learned counts with it)
    for pause in ([1, 3_600_000, 3_600_001, 86_400_000, 259_200_000, 259_200_001, 400_000_000] if thorough else [3_600_001, 86_400_000, 260_000_000]):
        open(nowf, "w").write("1000")
        srv = S.Server(bindir, dic, None, workers=4, now_file=nowf)
        try:
            if not srv.wait_listening():
                continue
            a = srv.conv("くるまで")
            open(nowf, "w").write(str(1000 + pause))
            b = srv.conv("やまだ")
            c = srv.conv("くるまで")
            st, _ = srv.rpc("UpdateFrequency", {"session_id": a[1]["session_id"], "candidate_id": "0"})
            d = srv.dump()
            got = sum(n for _, w, n, _ in (d or {"frequencies": []})["frequencies"] if w == "車")
            o = {"pause_ms": pause, "acknowledged_confirmations": 1, "learned_count": got, "other_conversions_in_between": 2}
            obs.append(dict(o, clients=1, pairs_per_client=1))
            if got != 1:
                fails.append(("confirmation-lost", {"kind": "confirmation-lost", "after": "pause"}, o))
        finally:
            srv.stop()
    # many conversions that are never confirmed pile up between the response and the confirmation (other clients abandon theirs)
    for pending in ([100, 255, 256, 257, 1000, 5000] if thorough else [255, 300, 1100]):
        srv = S.Server(bindir, dic, None, workers=4)
        try:
            if not srv.wait_listening():
                continue
            for i in range(pending - 1):
                srv.conv(["やまだ", "かか", "ほん"][i % 3])
            a = srv.conv("くるまで")
            for i in range(3):
                srv.conv("やまだ")
            st, _ = srv.rpc("UpdateFrequency", {"session_id": a[1]["session_id"], "candidate_id": "0"})
            d = srv.dump()
            got = sum(n for _, w, n, _ in (d or {"frequencies": []})["frequencies"] if w == "車")
            o = {"abandoned_conversions_before": pending - 1, "abandoned_conversions_in_between": 3, "acknowledged_confirmations": 1,
                 "learned_count": got, "live_sessions": d and d.get("sessions")}
            obs.append(dict(o, clients=1, pairs_per_client=1))
            if st != "ok" or got != 1:
                fails.append(("confirmation-lost", {"kind": "confirmation-lost", "after": "abandoned-sessions"}, o))
        finally:
            srv.stop()
    # an acknowledged conversion is HELD while many other conversions are served (and confirmed) before it is confirmed
    for others in ([300, 1023, 1024, 1100, 3000] if thorough else [1100, 2100]):
        srv = S.Server(bindir, dic, None, workers=4)
        try:
            if not srv.wait_listening():
                continue
            a = srv.conv("くるまで")
            for i in range(others):
                r_ = srv.conv(["やまだ", "かか", "ほん"][i % 3])
                if i % 2 == 0 and r_[0] == "ok" and r_[1]["candidates"]:
                    srv.rpc("UpdateFrequency", {"session_id": r_[1]["session_id"], "candidate_id": "0"})
            st, _ = srv.rpc("UpdateFrequency", {"session_id": a[1]["session_id"], "candidate_id": "0"})
            d = srv.dump()
            got = sum(n for _, w, n, _ in (d or {"frequencies": []})["frequencies"] if w == "車")
            o = {"conversions_served_while_held": others, "of_which_confirmed": (others + 1) // 2, "acknowledged_confirmations": 1,
                 "learned_count": got, "live_sessions": d and d.get("sessions")}
            obs.append(dict(o, clients=1, pairs_per_client=1))
            if st != "ok" or got != 1:
                fails.append(("confirmation-lost", {"kind": "confirmation-lost", "after": "held-while-others-convert"}, o))
        finally:
            srv.stop()
    # a backlog of acknowledged registrations (slow updater) must not keep an acknowledged conversion from being confirmed,
    # and every acknowledged registration is eventually applied
    srv = S.Server(bindir, dic, None, workers=4, env={"CHOKAN_VERIF_DELAY_UPDATER": "120"})
    try:
        if srv.wait_listening():
            a = srv.conv("しんかこか")
            ts = S.texts(a) or []
            acked = 0
            unanswered = None
            for i in range(40 if thorough else 24):
                st, _ = srv.rpc("RegisterWord", {"kind": "CommonNoun", "reading": "ばっくろぐ", "word": "滞貨%d" % i}, timeout=10.0)
                if st != "ok":
                    unanswered = "RegisterWord #%d: %s" % (i, st)
                    break
                acked += 1
            st2 = None
            if unanswered is None and "新過去化" in ts:
                st2, _ = srv.rpc("UpdateFrequency", {"session_id": a[1]["session_id"], "candidate_id": str(ts.index("新過去化"))}, timeout=10.0)
                if st2 != "ok":
                    unanswered = "UpdateFrequency of an affixed candidate: %s" % st2
            probe = srv.conv("くるまで", timeout=10.0)
            if unanswered is None and probe[0] != "ok":
                unanswered = "conversion after the confirmation: %s" % probe[0]
            o = {"acknowledged_registrations": acked, "updater_delay_ms": 120, "confirmed": "新過去化" if st2 else None}
            obs.append(dict(o, clients=1, pairs_per_client=1))
            if unanswered:
                fails.append(("confirmation-lost", {"kind": "confirmation-lost", "after": "registration-backlog"}, dict(o, unanswered=unanswered)))
            else:
                want = acked + (1 if st2 == "ok" else 0)
                done = S.wait_until(lambda: (lambda d_: d_ is not None and len(set(d_["user_entries"])) >= want)(srv.dump()), 30.0)
                if done is None:
                    d_ = srv.dump()
                    fails.append(("registration-not-applied-once", {"kind": "registration-not-applied-once", "after": "registration-backlog"},
                                  dict(o, distinct_user_entries=d_ and len(set(d_["user_entries"])), expected=want)))
    finally:
        srv.stop()
    for kind, key, w in fails[:6]:
        run.failures.append(cl.Failure("oracle", "server violates C15 (%s): %s" % (kind, json.dumps(w)), witness=w, key=key))
    run.cov.update({"evaluations": sum(o["clients"] * o["pairs_per_client"] for o in obs), "distinct_nontrivial": len(obs),
                    "rule": "per configuration (clients, pairs, delay hooks): every client sends conversion + confirmation back to back; "
                            "the learned count of the confirmed word must equal the number of acknowledged confirmations; then 20 "
                            "registrations must appear exactly once each; clock jumps and hundreds of abandoned conversions between a response and its confirmation. non-trivial = every configuration",
                    "samples": obs[:3], "oracle_failures": len(fails)})
    shutil.rmtree(wd, ignore_errors=True)
