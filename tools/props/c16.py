"""C16 — conversion context changes only what it is documented to change."""
from props import kkc_common as K


def head_word(cd):
    ws = [n for n in cd["chain"] if n["kind"] == "word"]
    return ws[0] if ws else None


def run(run, replay=None):
    run.assumptions += ["learned counts are 'transported' across contexts by registering the same count in both contexts "
                        "(counts are keyed by context, C06)"]
    run.regenerate(["Kkc", "Dic", "Server"])
    if run.build_props():
        run.audit()
    results, dis, cases = K.run_cases(run)
    if results is None:
        return
    fails = []
    stats = {"proper_vs_normal": 0, "foreign_vs_normal": 0, "numeral_vs_normal": 0, "heads_checked": 0, "score_pairs": 0}
    for r in results:
        c = r.case
        K.history_oracles(r, fails, stats)
        anc_only = {(rd, sf, sp) for d, rd, sf, sp in c.words if d.startswith("anc")} - \
                   {(rd, sf, sp) for d, rd, sf, sp in c.words if d.startswith("std")}
        for store, learned in ((r.base, False), (r.learned, True)):
            if store is None:
                continue
            if learned:
                # comparable only if the learned counts are the same in both contexts
                f = {}
                for ctx, s, k in c.freq:
                    f.setdefault(s, {})[ctx] = k
                same = all(v.get("normal", 0) == v.get("proper", 0) for v in f.values())
                same_f = all(v.get("normal", 0) == v.get("foreign", 0) for v in f.values())
                same_n = all(v.get("normal", 0) == v.get("numeral", 0) for v in f.values())
            else:
                same = same_f = same_n = True
            nm, pr = store["normal"], store["proper"]
            if nm["all"] is None:
                continue
            tn = {cd["text"]: cd for cd in nm["all"]}
            if same and pr["all"] is not None:
                stats["proper_vs_normal"] += 1
                tp = {cd["text"]: cd for cd in pr["all"]}
                if set(tn) != set(tp):
                    fails.append(("proper-set", {"kind": "proper-set"}, dict(c.describe(), normal=sorted(tn), proper=sorted(tp))))
                # lattices identical (ignoring forward scores) and every score identical except +10 per proper noun
                ln = [[(n["id"], n["surface"], n["reading"], n["speech"]) for n in p] for p in nm["lattice"] or []]
                lp = [[(n["id"], n["surface"], n["reading"], n["speech"]) for n in p] for p in pr["lattice"] or []]
                if ln != lp:
                    fails.append(("proper-lattice", {"kind": "proper-lattice"}, c.describe()))
                else:
                    sp_of = {n["id"]: n["speech"] for p in nm["lattice"] or [] for n in p}
                    en = {(p, n): (e, ns) for p, n, e, ns in nm["edges"] or []}
                    for p, n, e, ns in pr["edges"] or []:
                        stats["score_pairs"] += 1
                        e0, ns0 = en.get((p, n), (None, None))
                        bonus = 10 if sp_of.get(n) == "N.proper" else 0
                        if e0 != e or ns0 is None or ns != ns0 + bonus:
                            fails.append(("proper-score", {"kind": "proper-score"},
                                          dict(c.describe(), edge=[p, n], normal=[e0, ns0], proper=[e, ns], expected_bonus=bonus)))
                            break
                    # … and the forward pass uses exactly these scores: "every other score is identical" includes the forward
                    # scores the search is steered by
                    for ctx_, d_ in (("proper", pr), ("normal", nm)):
                        bad_ = K.forward_inconsistency(d_)
                        if bad_ is not None:
                            fails.append(("proper-forward-score", {"kind": "proper-forward-score"}, dict(c.describe(), context=ctx_, **bad_)))
                            break
            for ctx, want_head, same_ctx, key in (("foreign", "AFX.suffix", same_f, "foreign_vs_normal"),
                                                  ("numeral", "CNT", same_n, "numeral_vs_normal")):
                other = store[ctx]
                if other["all"] is None or not same_ctx:
                    continue
                stats[key] += 1
                to = {cd["text"]: cd for cd in other["all"]}
                missing = set(tn) - set(to)
                if missing:
                    fails.append((ctx + "-loses", {"kind": ctx + "-loses"}, dict(c.describe(), lost=sorted(missing))))
                lat = other["lattice"] or []
                for t in set(to) - set(tn):
                    h = head_word(to[t])
                    if h is not None and h["speech"] == want_head:
                        continue
                    # known, contrived mechanism (D11): an ancillary word became mergeable only because a head suffix /
                    # counter (merged in this context) ends right before it
                    words = [n for n in to[t]["chain"] if n["kind"] == "word"]
                    via_head_affix = False
                    for w in words:
                        st = w["end"] + 1 - len(w["reading"])
                        if st > 0 and st - 1 < len(lat) and any(x["speech"] == want_head and x["end"] + 1 - len(x["reading"]) == 0
                                                               for x in lat[st - 1] if x["kind"] == "word"):
                            via_head_affix = True
                    # … or transitively: the head rule is the only context-dependent merge, so a word of this candidate that is in
                    # this context's lattice but not in the normal one, and is not itself the head suffix/counter, was merged
                    # downstream of such a head word (an ancillary word made mergeable by a word that was made mergeable by it)
                    nlat = store["normal"]["lattice"] or []
                    nkeys = {(x["end"], x["reading"], x["surface"], x["speech"]) for pos in nlat for x in pos if x["kind"] == "word"}
                    head_here = any(x["speech"] == want_head and x["end"] + 1 - len(x["reading"]) == 0
                                    for pos in lat for x in pos if x["kind"] == "word")
                    for w in words:
                        st = w["end"] + 1 - len(w["reading"])
                        if head_here and (w["end"], w["reading"], w["surface"], w["speech"]) not in nkeys and \
                           not (w["speech"] == want_head and st == 0):
                            via_head_affix = True
                    key2 = {"kind": ctx + "-extra", "cause": "ancillary-after-head-affix-position"} if via_head_affix else \
                           {"kind": ctx + "-extra", "text": t}
                    fails.append((ctx + "-extra", key2, dict(c.describe(), context=ctx, extra_candidate=t,
                                                             parts=[(n["surface"], n["speech"]) for n in words])))
            for ctx in K.CTXS:
                for cd in store[ctx]["all"] or []:
                    h = head_word(cd)
                    stats["heads_checked"] += 1
                    if h is not None and (h["reading"], h["surface"], h["speech"]) in anc_only and \
                       (h["speech"].startswith("P.") or h["speech"] == "AUX"):
                        fails.append(("ancillary-head", {"kind": "ancillary-head"}, dict(c.describe(), context=ctx, candidate=cd["text"])))
    K.coverage(run, results, cases)
    run.cov["oracle_checks"] = stats
    K.report(run, "C16", fails, dis, "lattice/edges/candidates")
