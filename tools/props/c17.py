"""C17 — original-spelling conversion (server kana_alpha::convert) vs the client's romaji engine."""
import itertools
import shutil
import json
import os
import re
import unicodedata

import checklib as cl
import elisp_eval as el
from props import common
from props import c19

HIRA_CLASS = [chr(c) for c in range(0x3042, 0x3094)]
ASCII = "abcdefghijklmnopqrstuvwxyzABCDEFGHIJKLMNOPQRSTUVWXYZ0123456789"


def server_table():
    s = open(os.path.join(cl.REPO, "libs/kana-alpha/src/conversion.rs"), encoding="utf-8").read()
    rows = re.findall(r'Conversion\s*\{\s*hiragana:\s*"([^"]*)"\.into\(\),\s*katakana:\s*"([^"]*)"\.into\(\),\s*'
                      r'alphabets:\s*vec!\[\s*"([^"]*)"', s)
    return rows


def to_kata(s):
    return "".join(chr(ord(c) + 0x60) if 0x3041 <= ord(c) <= 0x3096 else c for c in s)


def run(run, replay=None):
    run.assumptions += ["unicode-normalization's NFC is modelled on kana + U+3099/U+309A only (validated by the NFD stream); "
                        "arbitrary-Unicode inputs are run on the implementation for totality but not compared with the model",
                        "the client (chokan.el) runs under tools/elisp_eval.py"]
    run.regenerate(["KanaAlpha", "Romaji", "KnownFindings"])
    if run.build_props():
        run.audit()
    rng = cl.Rng(run.seed)
    thorough = run.tier == "thorough"
    table = server_table()
    inputs = []
    hist = {"exhaustive": 0, "random_class": 0, "client_output": 0, "katakana": 0, "nfd": 0, "units": 0}
    small = "aZ9かきゃっんし"
    for n in range(0, 4 if not thorough else 5):
        for t in itertools.product(small, repeat=n):
            inputs.append("".join(t)); hist["exhaustive"] += 1
    pool = list(ASCII) + HIRA_CLASS * 2 + ["っ"] * 20
    for _ in range(30000 if thorough else 3000):
        n = rng.below(65) if rng.chance(1, 10) else rng.below(10)
        inputs.append("".join(rng.pick(pool) for _ in range(n))); hist["random_class"] += 1
    for h, k, a in table:
        for s in (h, "っ" + h, "っっ" + h, h + "っ", k, "ッ" + k, "a" + h + "z"):
            inputs.append(s); hist["units"] += 1
    # strings the client's romaji engine produces from ASCII key sequences
    it = c19.impl_load(run)
    client = c19.Impl(it) if it is not None else None
    keyseqs = []
    if client is not None:
        for n in range(1, 5 if thorough else 4):
            for t in itertools.product("kstnaiuyx", repeat=n):
                keyseqs.append("".join(t))
        for _ in range(3000 if thorough else 600):
            keyseqs.append("".join(rng.pick("abcdefghijklmnopqrstuvwxyz") for _ in range(1 + rng.below(6))))
        client.prefetch([("roma", k) for k in keyseqs])
        for k in keyseqs:
            out = client.roma(k)
            if out is not None:
                inputs.append(out); hist["client_output"] += 1
    base = list(inputs)
    for s in base[::7]:
        inputs.append(to_kata(s)); hist["katakana"] += 1
        inputs.append(unicodedata.normalize("NFD", s)); hist["nfd"] += 1
        inputs.append(unicodedata.normalize("NFD", to_kata(s))); hist["nfd"] += 1
    inputs = list(dict.fromkeys(inputs))
    lines = ["kana " + cl.cps(s) for s in inputs]
    impl, model = common.run_both(run, lines, "kana")
    if impl is None:
        return
    dis = common.diff(run, lines, impl, model, "kana", describe=lambda l: cl.from_cps(l[5:]))
    conv = {}
    for s, r in zip(inputs, impl):
        conv[s] = cl.from_cps(r[3:]) if r.startswith("ok") else None
    # the model's canonical decomposition (decompKana, used by C17_nfd) against Unicode NFD: every character of the kana block,
    # ASCII, and a sample of the input strings
    nfd_in = [chr(c) for c in range(0x3040, 0x3100) if c not in (0x3099, 0x309A)] + list(ASCII) + \
             [x for x in base[::11] if x] + [to_kata(x) for x in base[::13] if x]
    nfd_model = run.run_driver(["nfd " + cl.cps(x) for x in nfd_in])
    nfd_bad = []
    if nfd_model is not None:
        for x, r in zip(nfd_in, nfd_model):
            if r.strip() != ("ok " + cl.cps(unicodedata.normalize("NFD", x))).strip():
                nfd_bad.append({"input": [hex(ord(c)) for c in x], "model": r, "unicode_nfd": [hex(ord(c)) for c in unicodedata.normalize("NFD", x)]})
    hist["nfd_model_checked"] = len(nfd_in)
    if nfd_bad:
        run.failures.append(cl.Failure("correspondence", "the model's decomposition decompKana (theorem C17_nfd) differs from Unicode NFD on %d "
                                       "inputs, e.g. %s" % (len(nfd_bad), json.dumps(nfd_bad[0])[:300]), detail=json.dumps(nfd_bad[:5])))
    # arbitrary Unicode: implementation only (totality)
    uni = []
    for _ in range(5000 if thorough else 500):
        n = rng.below(12)
        cs = []
        for _ in range(n):
            c = rng.below(0x11000)
            if 0xD800 <= c <= 0xDFFF:
                c = 0x3042
            cs.append(chr(c))
        uni.append("".join(cs))
    bindir = run.build_harness(["impl_driver"])
    rc, out, err = run.run_harness(bindir, "impl_driver", input="\n".join("kana " + cl.cps(s) for s in uni) + "\n", timeout=600)
    uni_res = out.splitlines()
    fails = []
    for s, r in zip(uni, uni_res):
        if not r.startswith("ok"):
            fails.append(("total", {"kind": "total", "input": s}, {"input": s, "result": r}))
    if rc != 0 or len(uni_res) != len(uni):
        fails.append(("total", {"kind": "total", "input": "?"}, {"result": "implementation died or hung on the arbitrary-Unicode stream"}))
    # the server's RPC glue: GetAlphabeticCandidate must answer exactly what the conversion library answers
    rpc_n = 0
    from props import server_common as S
    sbin = S.build_binaries(run)
    if sbin is not None:
        swd = S.workdir("c17")
        sdic = S.make_dictionary(sbin, swd)
        srv = S.Server(sbin, sdic, None, workers=4)
        try:
            if srv.wait_listening():
                sample = [x for x in inputs if x and all(c in ASCII for c in x)][:150] + \
                         ["HTML", "Css3", "A", "Z9", "aB", "USB2", "x1Y"] + inputs[::max(1, len(inputs) // (800 if thorough else 250))]
                for x in dict.fromkeys(sample):
                    if conv.get(x) is None:
                        continue
                    st, res = srv.rpc("GetAlphabeticCandidate", {"input": x})
                    rpc_n += 1
                    got = res["candidates"][0]["candidate"] if st == "ok" and res and res.get("candidates") else None
                    if got != conv[x]:
                        fails.append(("rpc-differs", {"kind": "rpc-differs"},
                                      {"input": x, "GetAlphabeticCandidate": got if st == "ok" else st, "kana_alpha::convert": conv[x]}))
                        break
        finally:
            srv.stop()
            shutil.rmtree(swd, ignore_errors=True)
    n = {"ascii_only": 0, "keeps_ascii": 0, "units_concat": 0, "katakana": 0, "nfd": 0, "client_inverse": 0, "total_unicode": len(uni),
         "rpc_requests": rpc_n}
    units = {h: a for h, k, a in table}
    maxu = max(len(h) for h in units)
    for s in inputs:
        out = conv.get(s)
        if out is None:
            fails.append(("total", {"kind": "total", "input": s}, {"input": s, "result": "panic"}))
            continue
        in_class = all(c in ASCII or c in HIRA_CLASS for c in s)
        if in_class:
            n["ascii_only"] += 1
            badc = [c for c in out if not (c in "abcdefghijklmnopqrstuvwxyz0123456789")]
            if badc:
                # classify: a sokuon that is not followed by a table unit (recorded finding) or anything else
                dangling = all(c == "っ" for c in badc) and re.search(r"っ+(?![ぁ-ゖ])", s) is not None
                key = {"kind": "non-ascii-output", "cause": "dangling-sokuon"} if dangling else {"kind": "non-ascii-output", "input": s}
                fails.append(("ascii", key, {"input": s, "output": out}))
                continue
            n["keeps_ascii"] += 1
            want = [c.lower() for c in s if c in ASCII]
            itr = iter(out)
            if not all(any(x == w for x in itr) for w in want):
                fails.append(("keeps-ascii", {"kind": "keeps-ascii", "input": s}, {"input": s, "output": out}))
            # concatenation of units: greedy longest-unit decomposition (the specification of "its units")
            exp = []
            i = 0
            okd = True
            while i < len(s):
                j = i
                while j < len(s) and s[j] == "っ":
                    j += 1
                u = None
                for L in range(maxu, 0, -1):
                    if s[j:j + L] in units:
                        u = s[j:j + L]
                        break
                if u is not None:
                    a = units[u]
                    # a sokuon doubles the consonant that follows it; before a vowel there is no consonant to double and the
                    # sokuon is a unit of its own (its table spelling), which is also what the client reads back as っ
                    if a[:1] in "aiueo":
                        exp.append(units["っ"] * (j - i) + a)
                    else:
                        exp.append(a[:1] * (j - i) + a)
                    i = j + len(u)
                elif j > i:
                    okd = False   # dangling sokuon: covered by the ascii clause
                    break
                else:
                    exp.append(s[i].lower())
                    i += 1
            if okd:
                n["units_concat"] += 1
                if "".join(exp) != out:
                    fails.append(("units", {"kind": "units", "input": s}, {"input": s, "output": out, "expected": "".join(exp)}))
            k = to_kata(s)
            if k in conv and conv[k] is not None:
                n["katakana"] += 1
                if conv[k] != out:
                    if conv[k].replace("ッ", "っ") == out:   # the dangling sokuon is copied through as typed: same root cause
                        fails.append(("ascii", {"kind": "non-ascii-output", "cause": "dangling-sokuon"}, {"input": k, "output": conv[k]}))
                    else:
                        fails.append(("katakana", {"kind": "katakana", "input": s}, {"input": k, "output": conv[k], "hiragana_output": out}))
            d = unicodedata.normalize("NFD", s)
            if d in conv and conv[d] is not None:
                n["nfd"] += 1
                if conv[d] != out:
                    fails.append(("nfd", {"kind": "nfd", "input": s}, {"input_nfd": [hex(ord(c)) for c in d], "output": conv[d], "nfc_output": out}))
    # client inverse, per unit, on the two real implementations
    if client is not None:
        qs = []
        for h, k, a in table:
            qs += [("roma", a), ("roma", a[:1] + a)]
        client.prefetch(qs)
        for h, k, a in table:
            if h == "ん":
                continue
            sa = conv.get(h)
            ss = conv.get("っ" + h)
            n["client_inverse"] += 1
            if sa is not None and client.roma(sa) != h:
                fails.append(("client-inverse", {"kind": "client-inverse", "mode": "alone", "unit": h},
                              {"unit": h, "server_spelling": sa, "client_reads": client.roma(sa)}))
            elif ss is not None and client.roma(ss) != "っ" + h:
                fails.append(("client-inverse", {"kind": "client-inverse", "mode": "sokuon", "unit": h},
                              {"unit": "っ" + h, "server_spelling": ss, "client_reads": client.roma(ss)}))
    seen = set()
    for kind, key, w in fails:
        k = json.dumps(key, sort_keys=True, ensure_ascii=False)
        if k in seen:
            continue
        seen.add(k)
        if len(seen) > 120:
            break
        run.failures.append(cl.Failure("oracle", "C17 (%s): %s" % (kind, json.dumps(w, ensure_ascii=False)[:200]), witness=w, key=key))
    if dis and not fails:
        run.failures.append(cl.Failure("correspondence", "model Chokan.Model.KanaAlpha and kana_alpha::convert disagree on %d inputs, e.g. %s"
                                       % (len(dis), json.dumps(dis[0], ensure_ascii=False)[:300]), detail=json.dumps(dis[:5], ensure_ascii=False)))
    run.cov.update({
        "evaluations": len(inputs) + len(uni),
        "distinct_nontrivial": len({s for s in inputs if conv.get(s) not in (None, s)}),
        "rule": "all strings <= 3 (thorough 4) over {a,Z,9,か,き,ゃ,っ,ん,し}; random strings over [a-zA-Z0-9あ-ん] (っ-heavy, 10% up to 64 "
                "chars); every table unit alone / after 1–2 sokuon / before a sokuon / in katakana; every output of the client's "
                "romaji engine on key sequences; katakana and NFD variants; arbitrary Unicode (implementation only). "
                "non-trivial = output differs from input; distinct by input",
        "samples": [{"input": s, "output": conv[s]} for s in inputs[300:303] + inputs[-2:]],
        "input_histogram": hist, "oracle_checks": n, "oracle_failures": len(fails),
    })
