"""C18 — SKK import is total and everything it emits is a valid, faithful dictionary line."""
import json

import checklib as cl
from props import common
from props import notesgen as NG

KANA = [chr(c) for c in range(0x3041, 0x3094)] + ["ー"]
KANJI = "猿鞭無知愛惜見居書食高静隠密不亜山川"
NOUN_TAGS = ["サ変名詞", "代名詞", "名詞", "人称代名詞", "疑問代名詞", "連語", "複合語", "成句", "連句", "連濁"]
GODAN = {"カ": "k", "ガ": "g", "サ": "s", "タ": "t", "ナ": "n", "バ": "b", "マ": "m", "ラ": "r", "ワ": "w"}
GODAN_U = {"カ": "く", "ガ": "ぐ", "サ": "す", "タ": "つ", "ナ": "ぬ", "バ": "ぶ", "マ": "む", "ラ": "る", "ワ": "う"}
ROW_OF_LETTER = {"k": "かきくけこ", "g": "がぎぐげご", "s": "さしすせそ", "t": "たちつてとっ", "n": "なにぬねのん", "b": "ばびぶべぼん",
                 "m": "まみむめもん", "r": "らりるれろっ", "w": "わいうえおっ", "z": "ざじずぜぞ", "d": "だぢづでど", "h": "はひふへほ",
                 "e": "えけげせぜてでねへべめれ", "i": "いきぎじちにひびみり"}
ICHIDAN = [("マ", "上一", "み"), ("カ", "下一", "け"), ("バ", "下一", "べ"), ("ラ", "下一", "れ"), ("カ", "上一", "き")]


# any character but space, '/' and ';' may occur in a candidate (skk-dic-parser: `[^ ' ' | '/' | ';']+`)
CAND_EXTRA = list("#0123456789.,:!?()[]{}<>*+=~^_|&%$@'\"\\`") + ["　", "々", "〆", "ヶ", "é", "😀", "Ａ", "１"]
SKK_SPECIAL = ["#0", "#1", "#2", "#3", "#4", "#5", "#8", "#9", "第#1", "#1月", "#0:#0", "#3年#1月", "C#", "F#1", "No.1", "#", "##",
               "1#", "(concat)", "&amp", "a.b", "[x]", "~", "\\057"]


def rnd(rng, pool, lo, hi):
    return "".join(rng.pick(pool) for _ in range(lo + rng.below(hi - lo + 1)))


def gen_skk(rng):
    rd = rnd(rng, KANA, 1, 4)
    ok = rng.pick(["", "", "k", "s", "r"])
    words = []
    for _ in range(1 + rng.below(3)):
        if rng.chance(1, 6):
            # candidates SKK-JISYO files really contain: numeric templates, punctuation, Latin words, symbols
            w = rng.pick(SKK_SPECIAL)
            if rng.chance(1, 3):
                w = rng.pick(list(KANJI)) + w
        else:
            w = rnd(rng, list(KANJI) + ["カ", "a", "1", "-"] + (CAND_EXTRA if rng.chance(1, 3) else []), 1, 3)
        ann = rng.pick(["", "", ";note", ";∥名詞", ";a b"])
        words.append((w, ann))
    line = rd + ok + rng.pick([" ", "  ", "\t"]) + "/" + "".join(w + a + "/" for w, a in words)
    return line, {"reading": rd, "okuri": ok or None, "words": [w for w, _ in words]}


def gen_note(rng):
    """A well-formed notes line together with the dictionary lines the converter must emit (reference semantics)."""
    head = rnd(rng, KANA[1:60], 1, 3)
    kind = rng.below(11)
    stem = rnd(rng, KANJI, 1, 2)
    exp = []
    okl = ""
    meta = {"kind": kind}
    # readings that end in the very kana the dictionary form adds (むだ + だ, かわい + い, かく + く) are the coincidences a
    # converter that strips "the ending" by value instead of by position gets wrong
    echo = rng.below(3) == 0
    if kind == 10:     # godan verb whose FIXED okuri carries kana of the stem before the dictionary ending: 揺 + (-がす) = 揺が + す
        row = rng.pick(list(GODAN))
        extra, letter = rng.pick([("が", "g"), ("か", "k"), ("ら", "r"), ("なさ", "n"), ("ま", "m"), ("た", "t"), ("ざ", "z")])
        okl = letter
        body = "%s;∥<base>%s行五段(-%s%s)" % (stem, row, extra, GODAN_U[row])
        exp = [(head + extra, stem + extra, "%s行五段" % row)]
    elif kind == 9:      # base godan verb with NO okuri specification at all (neither (-xx) nor [..])
        row = rng.pick(list(GODAN))
        okl = GODAN[row]
        if echo:
            head = head + GODAN_U[row]
        body = "%s;∥<base>%s行五段" % (stem, row)
        exp = [(head, stem, "%s行五段" % row)]
        meta.update(base_verb=True, letter=okl)
    elif kind == 8:      # adjective with class okuri
        okl = "i"
        if echo:
            head = rng.pick(["", head]) + "い" * (1 + rng.below(2))
        body = "%s;∥形容詞[iks]" % stem
        exp = [(head, stem, "形容詞")]
    elif kind == 0:      # noun of every tag, no okuri
        tag = rng.pick(NOUN_TAGS)
        body = "%s;∥%s" % (stem, tag)
        exp = [(head, stem, "サ変名詞" if tag == "サ変名詞" else "一般名詞")]
    elif kind == 1:    # base godan verb with class okuri
        row = rng.pick(list(GODAN))
        okl = GODAN[row]
        if echo:
            head = head + GODAN_U[row]
        body = "%s;∥<base>%s行五段[a-z]" % (stem, row)
        exp = [(head, stem, "%s行五段" % row)]
        meta.update(base_verb=True, letter=okl)
    elif kind == 2:    # adjective with fixed okuri
        okl = "s"
        if echo:
            head = head + rng.pick(["い", "し", "しい"])
        body = "%s;∥形容詞(-しい)" % stem
        exp = [(head + "し", stem + "し", "形容詞")]
    elif kind == 3:    # adjectival verb with class okuri
        if echo:
            head = rng.pick(["", head]) + "だ" * (1 + rng.below(2))
        body = "%s;∥形容動詞[φdn(s)]" % stem
        exp = [(head, stem, "形容動詞")]
    elif kind == 4:    # adverb usable as prefix
        body = "%s;∥副詞[>]" % stem
        exp = [(head, stem, "副詞"), (head, stem, "接頭辞")]
    elif kind == 5:    # derived / okuri-nasi entries are skipped, a plain noun follows
        body = "%s;∥<derived>[a-z]/%s;∥名詞" % (rnd(rng, KANJI, 1, 1), stem)
        exp = [(head, stem, "一般名詞")]
    elif kind == 6:    # two speeches for one stem, with an in-entry note
        body = "%s;∥名詞,サ変名詞 ¶some note" % stem
        exp = [(head, stem, "一般名詞"), (head, stem, "サ変名詞")]
    else:              # base ichidan verb: multi-kana stem
        row, cls, k = rng.pick(ICHIDAN)
        head = head + k
        okl = "r"
        body = "%s;∥<base>%s行%s[a-z]" % (stem + k, row, cls)
        # dictionary okuri (e.g. みる) is dropped from stem+okuri kana; with a class okuri the okuri kana is the dictionary one
        exp = [(head, stem + k, "%s行%s" % (row, cls))]
        meta.update(base_verb=True, letter=okl, ichidan=True)
    line = "%s%s /%s/" % (head, okl, body)
    return line, exp, meta


def run(run, replay=None):
    run.assumptions += ["the notes grammar (note_grammer.rs) and converter (converter.rs) are modelled by hand (Chokan.Model.SkkNotes); the "
                        "dictionary-ending table form_to_skk_okuri is generated from the source (Gen/SkkNotes.lean); the model is run against "
                        "the implementation on every notes line of this check (op skknote), and the implementation is also judged by a "
                        "reference semantics written in tools/props/c18.py",
                        "'well-formed' SKK lines are those produced by this check's generators; candidates and note stems of well-formed "
                        "lines never contain a blank or TAB (mutated lines may; what they emit is then outside C18_notes_emitted_valid's "
                        "hypothesis and only totality is required of them)"]
    run.regenerate(["Dic", "DicGrammar", "SkkNotes"])
    if run.build_props():
        run.audit()
    rng = cl.Rng(run.seed + 18)
    thorough = run.tier == "thorough"
    N = 4000 if thorough else 500
    fails = []
    stats = {"skk_lines": 0, "note_lines": 0, "arbitrary_lines": 0, "emitted_lines": 0, "okuri_row_checks": 0, "panics": 0, "unsupported": 0}
    # ---- stream 1: SKK-JISYO lines, both sides (model comparison) ------------------------------------------------
    skk = [gen_skk(rng) for _ in range(N)]
    odd = ["", ";; comment", "; okuri-ari entries.", "さる", "さる /", "さる //", "さる /猿", "さる/猿/", " /猿/", "さるK /猿/", "サル /猿/",
           "さる /猿/ ", "さる /猿;/", "さる /;x/", "さる /猿/\n", "こーひー /珈琲/", "さる /猿\tx/", "ゔ /ヴ/", "あ /亜;∥名詞()/"]
    lines = []
    for l, _ in skk:
        for op in ("skk", "skknoun", "skkproper", "skktankan"):
            lines.append("%s %s" % (op, cl.cps(l)))
    arbitrary = []
    for _ in range(N):
        n = rng.below(14)
        arbitrary.append("".join(rng.pick(KANA + list("/; \t;∥()[]<>-,azkｋ猿1¶") + [chr(rng.below(0x3000) + 32)]) for _ in range(n)))
    for l in odd + arbitrary:
        for op in ("skk", "skknoun", "skkproper", "skktankan"):
            lines.append("%s %s" % (op, cl.cps(l)))
    impl, model = common.run_both(run, lines, "skk")
    if impl is None:
        return
    dis = common.diff(run, lines, impl, model, "skk", describe=lambda l: l.split(" ", 1)[0] + " " + cl.from_cps(l.split(" ", 1)[1]))
    stats["skk_lines"] = len(skk)
    stats["arbitrary_lines"] = len(odd) + len(arbitrary)
    emitted = []
    for i, (l, exp) in enumerate(skk):
        r = impl[4 * i]
        want = "some %s ; %s ; %s" % (cl.cps(exp["reading"]), cl.cps(exp["okuri"]) if exp["okuri"] else "none",
                                      " , ".join(cl.cps(w) for w in exp["words"]))
        if r != want:
            fails.append(("parse-unfaithful", {"kind": "parse-unfaithful"}, {"line": l, "expected": exp, "parsed": r}))
        for k, sp in ((1, "一般名詞"), (2, "固有名詞"), (3, "一般名詞")):
            rr = impl[4 * i + k]
            if rr.startswith("some "):
                for ent in rr[5:].split(" ;; "):
                    emitted.append((cl.from_cps(ent.split(" ; ")[0]), l))
        # nouns: okuri-ari lines are skipped, otherwise one entry per candidate
        rn = impl[4 * i + 1]
        if exp["okuri"]:
            if rn != "none":
                fails.append(("noun-okuri-ari-not-skipped", {"kind": "noun-okuri-ari-not-skipped"}, {"line": l, "result": rn}))
        else:
            want_lines = ["%s\t%s\t/一般名詞/" % (exp["reading"], w) for w in exp["words"]]
            got = [cl.from_cps(ent.split(" ; ")[0]) for ent in rn[5:].split(" ;; ")] if rn.startswith("some ") else None
            if got != want_lines:
                fails.append(("noun-unfaithful", {"kind": "noun-unfaithful"}, {"line": l, "expected": want_lines, "emitted": got}))
    for r, ln in zip(impl, lines):
        if r.startswith("panic"):
            stats["panics"] += 1
            fails.append(("panic", {"kind": "panic", "op": ln.split(" ")[0]}, {"line": cl.from_cps(ln.split(" ", 1)[1]), "op": ln.split(" ")[0]}))
    # ---- stream 2: notes (implementation + reference semantics) -------------------------------------------------------
    notes = [gen_note(rng) for _ in range(N)]
    # structured lines over the whole notes grammar, one-character mutations of them, and the directed class x row x okuri table
    rich = []
    for _ in range(N):
        l = NG.line(rng)
        rich.append((l, False))
        if rng.chance(1, 2):
            rich.append((NG.mutate(rng, l), True))
    directed = NG.directed()
    extra = odd + arbitrary
    nsrc = [l for l, _, _ in notes] + extra + [l for l, _ in rich] + directed
    nlines = ["skknote " + cl.cps(l) for l in nsrc]
    bindir = run.build_harness(["impl_driver"])
    rc, out, err = run.run_harness(bindir, "impl_driver", input="\n".join(nlines) + "\n")
    nimpl = out.splitlines()
    if rc != 0 or len(nimpl) != len(nlines):
        run.failures.append(cl.Failure("infra", "impl_driver failed on notes lines (rc=%s, %d/%d replies)" % (rc, len(nimpl), len(nlines)),
                                       detail=err[-400:]))
        return
    nmodel = run.run_driver(nlines)
    ndis = []
    if nmodel is not None:
        for l, a, b in zip(nsrc, nimpl, nmodel):
            if a.split(" || ")[0].strip() != b.strip():
                ndis.append({"request": "skknote " + l, "impl": a.split(" || ")[0].strip()[:300], "model": b.strip()[:300]})
        run.cov["model_disagreements"] = run.cov.get("model_disagreements", 0) + len(ndis)
    stats["rich_note_lines"] = len(rich)
    stats["directed_note_lines"] = len(directed)
    stats["mutated_note_lines"] = sum(1 for _, m in rich if m)
    stats["note_lines"] = len(notes)
    base_verbs = []
    for (l, exp, meta), r in zip(notes, nimpl):
        head = r.split(" || ")[0]
        if head.startswith("some"):
            got = [cl.from_cps(e.split(" ; ")[0]) for e in head[5:].split(" ;; ")] if len(head) > 5 else []
            want = ["%s\t%s\t/%s/" % e for e in exp]
            for g in got:
                emitted.append((g, l))
            if sorted(got) != sorted(want):
                fails.append(("note-unfaithful", {"kind": "note-unfaithful", "note_kind": meta["kind"]}, {"line": l, "expected": want, "emitted": got}))
            if meta.get("base_verb") and got:
                base_verbs.append((l, meta, got[0]))
        elif head == "unsupported":
            stats["unsupported"] += 1
        else:
            fails.append(("note-rejected", {"kind": "note-rejected", "note_kind": meta["kind"]}, {"line": l, "result": head}))
    kinds = {}
    off = len(notes)
    tail = [(l, True) for l in extra] + rich + [(l, False) for l in directed]
    for (l, mutated), r in zip(tail, nimpl[off:]):
        head = r.split(" || ")[0].strip()
        k = head.split(" ")[0]
        kinds[k] = kinds.get(k, 0) + 1
        if head.startswith("panic"):
            stats["panics"] += 1
            cause = "empty-fixed-okuri" if "()" in l else head.split(" ")[0][6:]
            fails.append(("panic", {"kind": "panic", "op": "skknote", "cause": cause}, {"line": l, "result": head}))
        elif head == "unsupported":
            stats["unsupported"] += 1
        elif head.startswith("some") and len(head) > 5:
            for e in head[5:].split(" ;; "):
                g = cl.from_cps(e.split(" ; ")[0])
                parts = g.split("\t")
                # outside the hypothesis of C18_notes_emitted_valid: a blank or TAB in the written form (mutated lines only)
                if mutated and (len(parts) != 3 or " " in parts[1]):
                    stats["blank_stem_skipped"] = stats.get("blank_stem_skipped", 0) + 1
                    continue
                emitted.append((g, l))
                if not mutated:
                    # C18_notes_faithful on the implementation: reading / written form are non-empty and share a prefix relation with
                    # the headword / one of the line's stems (the converter only appends okuri kana and cuts the dictionary ending)
                    hw = ""
                    for ch in l:
                        if ch in KANA:
                            hw += ch
                        else:
                            break
                    stems = [seg.split(";")[0] for seg in l.split("/")[1:] if ";" in seg]
                    rd, st = parts[0], parts[1]
                    okr = bool(rd) and (rd.startswith(hw) or hw.startswith(rd))
                    oks = bool(st) and any(st.startswith(x) or x.startswith(st) for x in stems if x)
                    stats["faithful_checks"] = stats.get("faithful_checks", 0) + 1
                    if not (okr and oks):
                        fails.append(("note-unfaithful", {"kind": "note-unfaithful", "note_kind": "rich"},
                                      {"line": l, "emitted": g, "headword": hw, "stems": stems}))
    stats["note_result_kinds"] = kinds
    # ---- several parts of speech under ONE stem: each is converted on its own terms — the entries of `stem;∥A,B` are those of
    # `stem;∥A` followed by those of `stem;∥B` (the implementation against itself; no model involved)
    specs = ["ガ行五段(-ぐ)[gi]", "サ行五段(-がす)", "ア行下一(-える)", "名詞(-え)", "名詞", "形容詞(-い)", "マ行五段(-む)", "ラ行五段(-る)[r]",
             "カ行五段(-く)", "サ変名詞", "副詞", "形容動詞[φ]", "ワ行五段(-う)", "タ行五段(-つ)[t]"]
    heads = [("ゆる", "g", "揺"), ("かんが", "e", "考"), ("くし", "", "見"), ("たか", "i", "高"), ("おも", "", "思")]
    trip = []
    for hd_, ok_, st_ in heads:
        for a_ in specs:
            for b_ in specs:
                if a_ != b_:
                    mk = lambda sp_: "%s%s /%s;∥<base>%s/" % (hd_, ok_, st_, sp_)
                    trip.append((mk(a_ + "," + b_), mk(a_), mk(b_)))
    tl = ["skknote " + cl.cps(x) for t_ in trip for x in t_]
    rc, out, err = run.run_harness(bindir, "impl_driver", input="\n".join(tl) + "\n")
    tr = out.splitlines()
    stats["multi_speech_lines"] = len(trip)
    if rc == 0 and len(tr) == len(tl):
        def ents(r_):
            h_ = r_.split(" || ")[0].strip()
            if not h_.startswith("some"):
                return None
            return [cl.from_cps(e.split(" ; ")[0]) for e in h_[5:].split(" ;; ")] if len(h_) > 5 else []
        for i_, (ab, a_, b_) in enumerate(trip):
            eab, ea, eb = ents(tr[3 * i_]), ents(tr[3 * i_ + 1]), ents(tr[3 * i_ + 2])
            if eab is None or ea is None or eb is None:
                continue
            stats["multi_speech_compared"] = stats.get("multi_speech_compared", 0) + 1
            if eab != ea + eb:
                fails.append(("note-unfaithful", {"kind": "note-unfaithful", "note_kind": "several-speeches-one-stem"},
                              {"line": ab, "emitted": eab, "each_speech_alone": [[a_, ea], [b_, eb]]}))
                break
            for g in eab:
                emitted.append((g, ab))
    # ---- everything emitted must be a valid line of the dictionary text format, reading back the same -----------------------------
    em = list(dict.fromkeys(emitted))
    plines = ["parse " + cl.cps(g) for g, _ in em]
    rc, out, err = run.run_harness(bindir, "impl_driver", input="\n".join(plines) + "\n")
    for (g, src), r in zip(em, out.splitlines()):
        stats["emitted_lines"] += 1
        ents = r[3:].split(" ;; ") if r.startswith("ok ") else []
        back = [cl.from_cps(e.split(" ; ")[0]) for e in ents]
        if back != [g]:
            cause = "tab-in-candidate" if g.count("\t") != 2 else "other"
            fails.append(("emitted-line-invalid", {"kind": "emitted-line-invalid", "cause": cause}, {"source_line": src, "emitted": g, "read_back": back}))
    # ---- okuri row of base verb notes --------------------------------------------------------------------------------------------
    wl = []
    for l, meta, g in base_verbs:
        rd, st, sp = g.split("\t")
        tok = None
        for cls_j, cls in (("五段", "godan"), ("上一", "kamiIchidan"), ("下一", "simoIchidan")):
            if sp.strip("/").endswith("行" + cls_j):
                tok = "V.%s.%d" % (cls, ord(sp.strip("/")[0]))
        wl.append("words %s | %s | %s" % (tok, cl.cps(rd), cl.cps(st)))
    rc, out, err = run.run_harness(bindir, "impl_driver", input="\n".join(wl) + "\n")
    for (l, meta, g), r in zip(base_verbs, out.splitlines()):
        stats["okuri_row_checks"] += 1
        rd = g.split("\t")[0]
        ok = False
        if r.startswith("ok "):
            for item in r[3:].split(" ; "):
                wrd = cl.from_cps(item.split(" : ")[1])
                okuri = wrd[len(rd):]
                if okuri and okuri[0] in ROW_OF_LETTER.get(meta["letter"], ""):
                    ok = True
        if not ok:
            key = {"kind": "okuri-row", "cause": "ichidan-stem-keeps-grade-kana"} if meta.get("ichidan") else {"kind": "okuri-row"}
            fails.append(("okuri-row", key, {"line": l, "emitted": g, "words": r[:200], "okuri_letter": meta["letter"]}))
    seen = set()
    for kind, key, w in fails:
        k = json.dumps(key, sort_keys=True, ensure_ascii=False)
        if k in seen:
            continue
        seen.add(k)
        run.failures.append(cl.Failure("oracle", "SKK import violates C18 (%s): %s" % (kind, json.dumps(w, ensure_ascii=False)[:300]), witness=w, key=key))
    if dis and not fails:
        run.failures.append(cl.Failure("correspondence", "model Chokan.Model.Skk and the SKK parsers disagree on %d replies, e.g. %s"
                                       % (len(dis), json.dumps(dis[0], ensure_ascii=False)[:400])))
    if ndis:
        # the C18 notes theorems are about a model the implementation no longer follows; the oracle failures above (if any) carry the
        # failing input, otherwise the disagreeing lines are named in the replay file and the line ends no-failing-input-found
        run.failures.append(cl.Failure("correspondence",
                                       "model Chokan.Model.SkkNotes and parse_note + to_entries disagree on %d notes lines, e.g. %s"
                                       % (len(ndis), json.dumps(ndis[0], ensure_ascii=False)[:400]),
                                       detail=json.dumps(ndis[:5], ensure_ascii=False)))
    run.cov.update({"evaluations": len(lines) + len(nlines) + len(plines) + len(wl),
                    "distinct_nontrivial": len({l for l, _ in skk}) + len({l for l, _, _ in notes}),
                    "rule": "well-formed SKK-JISYO lines (reading, optional okuri letter, 1–3 candidates with/without annotations) through "
                            "the four parsers on both sides; notes lines on both sides (model Chokan.Model.SkkNotes): structured lines over the whole notes grammar, their one-character mutations, and the directed table of every class x row x okuri shape x stem shape; well-formed notes lines of 10 kinds (a third of them with a reading that ends in the kana of the dictionary-form ending) (all noun tags, base godan / ichidan verbs, "
                            "fixed and class okuri, affix classes, derived entries, multi-speech entries with in-entry notes) against a "
                            "reference semantics; odd and arbitrary Unicode lines for totality; every emitted line re-read by the real "
                            "dictionary reader; okuri row of base verbs. non-trivial = well-formed line; distinct by line",
                    "samples": [skk[0][0], notes[0][0], notes[1][0]], "histogram": stats, "oracle_failures": len(fails)})
