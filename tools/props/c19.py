"""C19 — client romaji engine.  Implementation = tools/elisp_eval.py interpreting /repo/chokan.el
(no Emacs in the sandbox); model = Chokan.Model.Romaji over Chokan.Gen.Romaji via the driver."""
import itertools
import json
import os

import checklib as cl
import elisp_eval as el

SPEC_CONSONANTS = "tbjfhswrypkgzcv"   # specification data: the letters whose doubling means っ
HIRA = "あいうえおかきくけこさしすせそたちつてとなにぬねのはひふへほまみむめもやゆよらりるれろわをんがぎぐげござじずぜぞだぢづでどばびぶべぼぱぴぷぺぽっゃゅょぁぃぅぇぉ"
KATA = "アカサタナハマヤラワンー"


def impl_load(run):
    try:
        it = el.load(os.path.join(cl.REPO, "chokan.el"))
    except (el.Unsupported, el.LispError, Exception) as e:
        run.failures.append(cl.Failure("correspondence",
                                       "chokan.el can no longer be interpreted by the Lisp-subset evaluator: %r" % (e,)))
        return None
    n, bad = el.selftest(os.path.join(cl.REPO, "chokan.el"), os.path.join(cl.REPO, "chokan-tests.el"))
    run.cov["evaluator_selftest"] = {"ert_expectations_checked": n, "failed": len(bad)}
    if n == 0:
        run.failures.append(cl.Failure("infra", "evaluator self-test found no ERT expectations"))
    for b in bad[:3]:
        # an ERT expectation of the repository's own test file fails on the working-tree source
        run.failures.append(cl.Failure("oracle", "ERT expectation fails: (%s %r) = %r, expected %r" % (b[0], b[1], b[3], b[2]),
                                       witness={"fn": b[0], "args": b[1], "expected": b[2], "got": b[3]},
                                       key={"kind": "ert", "input": b[1][0] if b[1] else ""}))
    return it


_W = {}


def _worker(chunk):
    if "it" not in _W:
        _W["it"] = el.load(os.path.join(cl.REPO, "chokan.el"))
    im = Impl(_W["it"])
    return [(op, s, im.call(op, s)) for op, s in chunk]


class Impl:
    def __init__(self, it):
        self.it = it
        self.cache = {}

    def prefetch(self, queries):
        """Evaluate many queries on all cores (the Lisp recomputes the longest key per call, ~8 ms each)."""
        import multiprocessing as mp
        todo = sorted({q for q in queries if q not in self.cache})
        if len(todo) < 64:
            return
        n = min(16, os.cpu_count() or 4)
        chunks = [todo[i::n * 4] for i in range(n * 4)]
        with mp.Pool(n) as pool:
            for res in pool.imap_unordered(_worker, chunks):
                for op, s, r in res:
                    self.cache[(op, s)] = r

    def call(self, op, s):
        k = (op, s)
        if k in self.cache:
            return self.cache[k]
        fn = {"roma": "chokan--roman-to-hiragana", "kata": "chokan--roman-hira-to-kata",
              "sokuon": "chokan--roman-sokuon-p"}[op]
        try:
            r = el.call(self.it, fn, s)
            if op == "sokuon":
                r = "ok " + ("t" if el.truthy(r) else "nil")
            else:
                r = "ok " + cl.cps(r)
        except el.LispError as e:
            r = "error"
        except el.Unsupported as e:
            r = "unsupported " + str(e)
        self.cache[k] = r
        return r

    def roma(self, s):
        r = self.call("roma", s)
        return cl.from_cps(r[3:]) if r.startswith("ok ") else None

    def kata(self, s):
        r = self.call("kata", s)
        return cl.from_cps(r[3:]) if r.startswith("ok ") else None


def gen_inputs(run, roman, kata_tab):
    rng = cl.Rng(run.seed)
    thorough = run.tier == "thorough"
    ins = []
    hist = {"table_keys": 0, "exhaustive": 0, "random_ascii": 0, "mixed": 0, "doubled": 0, "kata": 0, "sokuon": 0}
    for k, _ in roman:
        ins.append(("roma", k))
        hist["table_keys"] += 1
    L = 6 if thorough else 4
    for n in range(0, L + 1):
        for t in itertools.product("kstnxau", repeat=n):
            ins.append(("roma", "".join(t)))
            hist["exhaustive"] += 1
    letters = "abcdefghijklmnopqrstuvwxyzABCDEFGHIJKLMNOPQRSTUVWXYZ0123456789-.,' "
    for _ in range(20000 if thorough else 1500):
        n = 1 + rng.below(8)
        ins.append(("roma", "".join(rng.pick(letters) for _ in range(n))))
        hist["random_ascii"] += 1
    pool = letters[:26] + HIRA + KATA + "09AK漢"
    for _ in range(20000 if thorough else 1500):
        n = 1 + rng.below(8)
        s = []
        for _ in range(n):
            c = rng.pick(pool)
            s.append(c)
            if rng.chance(1, 5):      # doubled characters of every kind (kana, digits, capitals, consonants)
                s.append(c)
                hist["doubled"] += 1
        ins.append(("roma", "".join(s)))
        hist["mixed"] += 1
    for c in "abcdefghijklmnopqrstuvwxyzAK0あっ":
        for rest in ("", "a", "u", "ya", "tu", "あ"):
            ins.append(("roma", c + c + rest))
            ins.append(("sokuon", c + c + rest))
            ins.append(("sokuon", c + rest))
            hist["sokuon"] += 3
    for k, v in kata_tab:
        ins.append(("kata", k))
        hist["kata"] += 1
    for k, v in roman:                   # every kana the romaji table can produce, through katakana mode
        ins.append(("kata", v))
        hist["kata"] += 1
    for _ in range(3000 if thorough else 400):
        n = rng.below(7)
        ins.append(("kata", "".join(rng.pick(HIRA + "abtz09ーア&+") for _ in range(n))))
        hist["kata"] += 1
    # every character around the kana blocks that is not a key of the katakana table must come back untouched
    table_keys = {k for k, _ in kata_tab}
    for c in list(range(0x3000, 0x3100)) + list(range(0xFF61, 0xFFA0)) + [0x1B000, 0x1B001, 0x4E00, 0x20, 0x7E]:
        ch = chr(c)
        if ch not in table_keys:
            ins.append(("kata", ch))
            ins.append(("kata", "か" + ch + "き"))
            hist["kata"] += 2
    return ins, hist


def oracles(run, impl, roman, kata_tab, ins):
    """The property's executable oracle, evaluated on the IMPLEMENTATION's outputs only."""
    fails = []
    keychars = set("".join(k for k, _ in roman))

    def unmapped(c):
        return c not in keychars and c not in SPEC_CONSONANTS

    # O1: every table spelling types its kana
    for k, v in roman:
        got = impl.roma(k)
        if got != v:
            fails.append(("table-row", {"kind": "table-row", "input": k}, {"input": k, "expected": v, "got": got}))
    n_pass = n_idem = n_sok = 0
    for op, s in ins:
        if op != "roma":
            continue
        out = impl.roma(s)
        if out is None:
            fails.append(("total", {"kind": "total", "input": s}, {"input": s, "got": impl.call("roma", s)}))
            continue
        # O3 idempotent on its own output
        out2 = impl.roma(out)
        n_idem += 1
        if out2 != out:
            fails.append(("idempotent", {"kind": "idempotent", "input": s}, {"input": s, "once": out, "twice": out2}))
        # O2 pass-through: split at every unmapped character
        for i, c in enumerate(s):
            if unmapped(c):
                a, b = impl.roma(s[:i]), impl.roma(s[i + 1:])
                n_pass += 1
                if a is None or b is None or out != a + c + b:
                    fails.append(("passthrough", {"kind": "passthrough", "input": s},
                                  {"input": s, "split_at": i, "got": out, "expected": (a or "?") + c + (b or "?")}))
                break
        # O4 doubled consonant
        if len(s) >= 2 and s[0] == s[1] and s[0] in SPEC_CONSONANTS:
            r = impl.roma(s[1:])
            n_sok += 1
            if r is None or out != "っ" + r:
                fails.append(("sokuon", {"kind": "sokuon", "input": s}, {"input": s, "got": out, "expected": "っ" + (r or "?")}))
    # O5 katakana
    first = {}
    for k, v in kata_tab:
        first.setdefault(k, v)
    for k, v in first.items():
        if len(k) == 1:
            got = impl.kata(k)
            if got != v:
                fails.append(("kata-row", {"kind": "kata-row", "input": k}, {"input": k, "expected": v, "got": got}))
    # "maps every table kana": every kana the romaji table can produce must come out of katakana mode as katakana — no hiragana
    # (U+3041–U+3096) may be left in the katakana of a typed kana
    n_typed = 0
    for k, v in roman:
        got = impl.kata(v)
        n_typed += 1
        if got is None or any(0x3041 <= ord(c) <= 0x3096 for c in got):
            fails.append(("kata-typed", {"kind": "kata-typed", "input": v},
                          {"input": v, "typed": k, "kana": v, "katakana_mode_yields": got, "left_unmapped": [c for c in (got or "") if 0x3041 <= ord(c) <= 0x3096]}))
    for op, s in ins:
        if op != "kata":
            continue
        got = impl.kata(s)
        exp = "".join(first.get(c, c) for c in s)
        if got != exp:
            fails.append(("kata", {"kind": "kata", "input": s}, {"input": s, "expected": exp, "got": got}))
    run.cov["oracle_checks"] = {"table_rows": len(roman), "idempotent": n_idem, "passthrough": n_pass, "sokuon": n_sok,
                                "kata_rows": len(first), "kata_typed": n_typed}
    return fails


def run(run, replay=None):
    run.assumptions += [
        "No Emacs in the sandbox: chokan.el is executed by tools/elisp_eval.py (Lisp subset of three defuns), "
        "validated on every run against the expectations of chokan-tests.el",
        "SPEC_CONSONANTS (letters whose doubling means っ) is specification data of the check",
    ]
    run.regenerate(["Romaji"])
    ok = run.build_props()
    if ok:
        run.audit()
    it = impl_load(run)
    if it is None:
        return
    impl = Impl(it)
    roman = [p for p in el.alist_to_pairs(it.globals.v["chokan--roman-table"]) if p]
    kata_tab = [p for p in el.alist_to_pairs(it.globals.v["chokan--katakana-table"]) if p]
    if replay:
        data = json.load(open(replay, encoding="utf-8"))
        ins = []
        for f in data.get("failures", []):
            w = f.get("witness") or {}
            if "input" in w:
                ins.append(("roma", w["input"]))
                ins.append(("kata", w["input"]))
        hist = {"replay": len(ins)}
    else:
        ins, hist = gen_inputs(run, roman, kata_tab)
    impl.prefetch(ins)
    derived = []
    for op, s in ins:
        if op == "roma":
            out = impl.roma(s)
            if out is not None:
                derived.append(("roma", out))
            for i in range(len(s)):
                derived.append(("roma", s[:i]))
                derived.append(("roma", s[i + 1:]))
            derived.append(("roma", s[1:]))
    impl.prefetch(derived)
    # --- correspondence: model (driver) vs implementation (evaluator) on the same lines
    lines = ["%s %s" % (op, cl.cps(s)) for op, s in ins]
    model = run.run_driver(lines)
    disagreements = []
    if model is not None:
        for (op, s), m in zip(ins, model):
            r = impl.call(op, s)
            if r != m:
                disagreements.append({"op": op, "input": s, "impl": r, "model": m})
    # --- the property's oracle on the implementation
    fails = oracles(run, impl, roman, kata_tab, ins)
    seen = set()
    for kind, key, w in fails:
        if (kind, key.get("input")) in seen:
            continue
        seen.add((kind, key.get("input")))
        if len(seen) > 25:
            break
        run.failures.append(cl.Failure("oracle", "client romaji engine violates C19 (%s) on %r" % (kind, w.get("input")),
                                       witness=w, key=key))
    if disagreements and not fails:
        run.failures.append(cl.Failure("correspondence",
                                       "model Chokan.Model.Romaji and chokan.el disagree on %d inputs, e.g. %s"
                                       % (len(disagreements), json.dumps(disagreements[0], ensure_ascii=False)),
                                       detail=json.dumps(disagreements[:5], ensure_ascii=False)))
    distinct = len({(op, s) for op, s in ins})
    nontrivial = len({(op, s) for op, s in ins if op != "roma" or (impl.roma(s) not in (None, s))})
    run.cov.update({
        "evaluations": len(ins), "distinct_nontrivial": nontrivial,
        "rule": "inputs: all table keys; all strings <= L over {k,s,t,n,x,a,u}; random ASCII; mixed kana/ASCII with doubled "
                "characters; katakana inputs. distinct by (op,input); non-trivial = conversion changes the input "
                "(or a katakana/sokuon query). distinct inputs: %d" % distinct,
        "samples": [{"op": op, "input": s, "impl": impl.call(op, s)} for op, s in ins[260:263] + ins[-3:]],
        "input_histogram": hist, "model_disagreements": len(disagreements), "oracle_failures": len(fails),
    })
