"""C20 — confirming an affixed candidate teaches the compound as a user word.
Library part: what `to_string_with_affix` extracts from the chains the search really returns; the server part
(learning through the session protocol, saving, restart) is in props/server_common.py."""
from props import kkc_common as K


def expected_compound(cd):
    mid = cd["chain"][1:-1]
    run_ = [n for n in mid if n["kind"] == "word"]
    sp = [n["speech"] for n in run_]
    anc = lambda s: s.startswith(("P.", "AUX", "AFX."))
    if len(run_) == 2 and sp[0] == "AFX.prefix" and not anc(sp[1]):
        pass
    elif len(run_) == 2 and not anc(sp[0]) and sp[1] == "AFX.suffix":
        pass
    elif len(run_) == 3 and sp[0] == "AFX.prefix" and not anc(sp[1]) and sp[2] == "AFX.suffix":
        pass
    else:
        return None
    return ("".join(n["surface"] for n in run_), "".join(n["reading"] for n in run_))


def lib_part(run, fails, stats):
    results, dis, cases = K.run_cases(run)
    if results is None:
        return None, None, None
    for r in results:
        for store in (r.base, r.learned):
            if store is None:
                continue
            for ctx in K.CTXS:
                for cd in store[ctx]["all"] or []:
                    exp = expected_compound(cd)
                    words = [n for n in cd["chain"] if n["kind"] == "word"]
                    has_affix = any(n["speech"].startswith("AFX.") for n in words)
                    if exp is not None:
                        stats["affixed_candidates"] += 1
                        if cd["affix"] != exp:
                            fails.append(("compound-not-extracted", {"kind": "compound-not-extracted"},
                                          dict(r.case.describe(), context=ctx, candidate=cd["text"],
                                               parts=[(n["surface"], n["speech"]) for n in words], expected=exp, extracted=cd["affix"])))
                    elif not has_affix:
                        stats["plain_candidates"] += 1
                        if cd["affix"] is not None:
                            fails.append(("spurious-compound", {"kind": "spurious-compound"},
                                          dict(r.case.describe(), context=ctx, candidate=cd["text"], extracted=cd["affix"])))
    return results, dis, cases


def run(run, replay=None):
    from props import server_common as S
    run.regenerate(["Kkc", "Dic", "Server"])
    if run.build_props():
        run.audit()
    fails = []
    stats = {"affixed_candidates": 0, "plain_candidates": 0}
    results, dis, cases = lib_part(run, fails, stats)
    if results is None:
        return
    K.coverage(run, results, cases)
    S.c20_part(run, fails, stats)
    run.cov["oracle_checks"] = stats
    K.report(run, "C20", fails, dis, "lattice/edges/candidates")
