"""C20, server part: confirming an affixed candidate through the real session protocol teaches the compound."""
import json
import os
import shutil

import checklib as cl
from props import server_common as S

CASES = [("おさけ", "御酒", "おさけ", "御酒"), ("しんかこか", "新過去か", "しんかこ", "新過去"), ("しんかこか", "新過去化", "しんかこか", "新過去化"),
         ("おやま", "御山", "おやま", "御山"), ("やまか", "山化", "やまか", "山化"), ("かこか", "過去化", "かこか", "過去化")]
# a text that exists only if the learned compound is ONE word of the running dictionary (suffix does not follow suffix)
ONLY_VIA_COMPOUND = {"過去化": ("かこかてき", "過去化的"), "山化": ("やまかてき", "山化的"), "新過去化": ("しんかこかてき", "新過去化的")}


def run_part(run, fails, stats):
    bindir = S.build_binaries(run)
    if bindir is None:
        return
    wd = S.workdir("c20")
    dic = S.make_dictionary(bindir, wd)
    runners = []
    stats.update({"compounds_confirmed": 0, "plain_confirmed": 0})
    for hi, (inp, cand, rd, comp) in enumerate(CASES):
        r = S.HistoryRunner(run, bindir, dic, wd, "h%d" % hi)
        runners.append(r)
        if not r.start():
            continue
        try:
            res = r.conv("normal", inp)
            ts = S.texts(res) or []
            if cand not in ts:
                continue
            before = S.texts(r.conv("normal", rd)) or []
            r.confirm(len(r.sids) - 2, str(ts.index(cand)), 1000)
            stats["compounds_confirmed"] += 1
            r.settle(1)
            w = {"input": inp, "confirmed": cand, "expected_compound": [comp, rd]}
            if comp in ONLY_VIA_COMPOUND:
                pin, ptext = ONLY_VIA_COMPOUND[comp]
                got = S.texts(r.conv("normal", pin)) or []
                if ptext not in got:
                    fails.append(("compound-not-one-word", {"kind": "compound-not-convertible", "via": "following-suffix"},
                                  dict(w, probe=pin, expected=ptext, candidates=got)))
            after = S.texts(r.conv("normal", rd)) or []
            if comp not in after:
                fails.append(("compound-not-convertible", {"kind": "compound-not-convertible"}, dict(w, candidates_for_compound_reading=after)))
            d = r.dump()
            line = "%s\t%s\t/一般名詞/" % (rd, comp)
            if d is None or line not in d["user_entries"]:
                fails.append(("compound-not-in-user-dictionary", {"kind": "compound-not-in-user-dictionary"}, dict(w, user_entries=d and d["user_entries"])))
            # a plain candidate (no affix) teaches no word
            if inp == "おさけ":
                # a second compound with the same reading must be learned as well (homophones)
                res3 = r.conv("normal", "おさけ")
                ts3 = S.texts(res3) or []
                if "御鮭" in ts3:
                    r.confirm(len(r.sids) - 1, str(ts3.index("御鮭")), 1500)
                    stats["compounds_confirmed"] += 1
                    r.settle(2)
                    d3 = r.dump()
                    if d3 is None or "おさけ\t御鮭\t/一般名詞/" not in d3["user_entries"]:
                        fails.append(("compound-not-in-user-dictionary", {"kind": "compound-not-in-user-dictionary"},
                                      {"input": "おさけ", "confirmed": "御鮭", "after": "御酒 was learned first", "user_entries": d3 and d3["user_entries"]}))
            res2 = r.conv("normal", "くるまで")
            n_before = len((r.srv.dump() or {"user_entries": []})["user_entries"])
            r.confirm(len(r.sids) - 1, "0", 2000)
            stats["plain_confirmed"] += 1
            n_after = len((r.srv.dump() or {"user_entries": []})["user_entries"])
            if n_after != n_before:
                fails.append(("plain-candidate-learned-a-word", {"kind": "plain-candidate-learned-a-word"}, {"input": "くるまで"}))
            # texts that exist only if a learned compound is ONE word (a prefix does not follow a prefix, a suffix not a suffix)
            only_one_word = ["しんおさけ", "しんおやま", "かこかてき", "やまかてき", "しんかこかてき"]
            live2 = {p_: S.texts(r.conv("normal", p_)) or [] for p_ in only_one_word}
            if inp == "おさけ" and not ("新御酒" in live2["しんおさけ"] and "新御鮭" in live2["しんおさけ"]):
                fails.append(("compound-not-one-word", {"kind": "compound-not-convertible", "via": "leading-prefix"},
                              dict(w, probe="しんおさけ", candidates=live2["しんおさけ"])))
            if r.restart():
                after2 = {p_: S.texts(r.conv("normal", p_)) or [] for p_ in only_one_word}
                if after2 != live2:
                    k0 = [p_ for p_ in only_one_word if after2[p_] != live2[p_]][0]
                    fails.append(("compound-lost-by-restart", {"kind": "compound-lost-by-restart", "via": "one-word-probe"},
                                  dict(w, probe=k0, before_restart=live2[k0], after_restart=after2[k0])))
                again = S.texts(r.conv("normal", rd)) or []
                if comp not in again:
                    fails.append(("compound-lost-by-restart", {"kind": "compound-lost-by-restart"}, dict(w, after_restart=again)))
                saved = S.read_user_dir(r.userdir)["user.dic"]
                if saved is None or line not in saved.decode("utf-8", "replace").split("\n"):
                    fails.append(("compound-not-saved", {"kind": "compound-not-saved"}, dict(w, user_dic=saved and saved.decode("utf-8", "replace"))))
                r.dump()
        finally:
            r.stop()
    # a periodic save that falls between the acknowledgement and the updater's application of the compound must not make
    # the compound unsaved for good
    import time
    ud = os.path.join(wd, "slow-user")
    os.makedirs(ud, exist_ok=True)
    srv = S.Server(bindir, dic, ud, workers=4, save_secs=1, env={"CHOKAN_VERIF_DELAY_UPDATER": "2500"})
    try:
        if srv.wait_listening():
            res = srv.conv("おさけ")
            ts = S.texts(res) or []
            if "御酒" in ts:
                srv.rpc("UpdateFrequency", {"session_id": res[1]["session_id"], "candidate_id": str(ts.index("御酒"))})
                stats["compounds_confirmed"] += 1
                line = "おさけ\t御酒\t/一般名詞/"
                p_ = os.path.join(ud, "user.dic")
                saved = S.wait_until(lambda: os.path.exists(p_) and line in open(p_, encoding="utf-8", errors="replace").read().split("\n"), 9.0)
                w = {"input": "おさけ", "confirmed": "御酒", "updater_delay_ms": 2500, "save_period_s": 1}
                if saved is None:
                    fails.append(("compound-not-saved", {"kind": "compound-not-saved", "phase": "slow-updater"},
                                  dict(w, user_dic=open(p_, encoding="utf-8", errors="replace").read() if os.path.exists(p_) else None)))
                else:
                    srv.stop()
                    srv = S.Server(bindir, dic, ud, workers=4, save_secs=1)
                    if srv.wait_listening():
                        d = srv.dump()
                        if d is None or line not in d["user_entries"]:
                            fails.append(("compound-lost-by-restart", {"kind": "compound-lost-by-restart", "phase": "slow-updater"},
                                          dict(w, user_entries=d and d["user_entries"])))
    finally:
        srv.stop()
    # a compound WRITTEN like a word the user confirmed earlier under another reading (大事: だいじ the noun, おおごと = 大 + 事):
    # what was learned about a written form says nothing about the compound's reading — the compound must still be learned
    wd3 = S.workdir("c20hom")
    dic3 = S.make_dictionary(bindir, wd3, std=S.STD + [("だいじ", "大事", "一般名詞"), ("ごと", "事", "一般名詞")],
                             anc=S.ANC + [("おお", "大", "接頭辞")])
    ud3 = os.path.join(wd3, "user")
    srv = S.Server(bindir, dic3, ud3, workers=4, save_secs=1)
    try:
        if dic3 is not None and srv.wait_listening():
            r1 = srv.conv("だいじ")
            t1 = S.texts(r1) or []
            if "大事" in t1:
                srv.rpc("UpdateFrequency", {"session_id": r1[1]["session_id"], "candidate_id": str(t1.index("大事"))})
                stats["plain_confirmed"] += 1
            r2 = srv.conv("おおごと")
            t2 = S.texts(r2) or []
            if "大事" in t2:
                srv.rpc("UpdateFrequency", {"session_id": r2[1]["session_id"], "candidate_id": str(t2.index("大事"))})
                stats["compounds_confirmed"] += 1
                line = "おおごと\t大事\t/一般名詞/"
                got = S.wait_until(lambda: (lambda d_: d_ if d_ is not None and line in d_["user_entries"] else None)(srv.dump()), 4.0)
                w = {"earlier_confirmed": ["だいじ", "大事"], "input": "おおごと", "confirmed": "大事", "expected_compound": ["大事", "おおごと"]}
                if got is None:
                    d_ = srv.dump()
                    fails.append(("compound-not-in-user-dictionary", {"kind": "compound-not-in-user-dictionary", "phase": "same-written-form"},
                                  dict(w, user_entries=d_ and d_["user_entries"])))
                else:
                    p3 = os.path.join(ud3, "user.dic")
                    saved = S.wait_until(lambda: os.path.exists(p3) and line in open(p3, encoding="utf-8", errors="replace").read().split("\n"), 6.0)
                    if saved is None:
                        fails.append(("compound-not-saved", {"kind": "compound-not-saved", "phase": "same-written-form"}, w))
    finally:
        srv.stop()
    shutil.rmtree(wd3, ignore_errors=True)
    # a periodic save that FAILS once (the temporary file's name is taken by a directory) right after the compound was learned:
    # once the fault is gone the next periodic save must write the compound — a failed save must not count as done
    wd4 = S.workdir("c20fail")
    dic4 = S.make_dictionary(bindir, wd4)
    ud4 = os.path.join(wd4, "user")
    os.makedirs(ud4, exist_ok=True)
    srv = S.Server(bindir, dic4, ud4, workers=4, save_secs=1)
    try:
        if dic4 is not None and srv.wait_listening():
            r0 = srv.conv("おさけ")
            t0_ = S.texts(r0) or []
            if "御酒" in t0_:
                blocker = os.path.join(ud4, "user.dic.tmp")
                os.makedirs(blocker, exist_ok=True)               # File::create(user.dic.tmp) now fails
                srv.rpc("UpdateFrequency", {"session_id": r0[1]["session_id"], "candidate_id": str(t0_.index("御酒"))})
                stats["compounds_confirmed"] += 1
                time.sleep(2.6)                                   # at least two failing ticks
                try:
                    os.rmdir(blocker)
                except OSError:
                    pass
                line = "おさけ\t御酒\t/一般名詞/"
                p4 = os.path.join(ud4, "user.dic")
                saved = S.wait_until(lambda: os.path.isfile(p4) and line in open(p4, encoding="utf-8", errors="replace").read().split("\n"), 6.0)
                w = {"input": "おさけ", "confirmed": "御酒", "fault": "user.dic.tmp was a directory for 2.6 s after the confirmation (save failed)",
                     "save_period_s": 1, "files_afterwards": sorted(os.listdir(ud4))}
                stats["failed_save_then_recovered"] = bool(saved)
                if saved is None:
                    fails.append(("compound-not-saved", {"kind": "compound-not-saved", "phase": "after-a-failed-save"}, w))
    finally:
        srv.stop()
    shutil.rmtree(wd4, ignore_errors=True)
    # a confirmation that arrives WHILE a periodic save is being written (a large user dictionary makes the save slow): the
    # compound must reach user.dic with a later save and survive a restart
    ud2 = os.path.join(wd, "race-user")
    os.makedirs(ud2, exist_ok=True)
    srv = S.Server(bindir, dic, ud2, workers=4, save_secs=1)
    try:
        ready = False
        if srv.wait_listening():
            res = srv.conv("くるまで")
            srv.rpc("UpdateFrequency", {"session_id": res[1]["session_id"], "candidate_id": "0"})
            ready = S.wait_until(lambda: os.path.exists(os.path.join(ud2, "user.dic")) and os.path.exists(os.path.join(ud2, "frequency.bin")), 6.0)
        srv.stop()
        if ready:
            filler = 400000 if run.tier == "thorough" else 150000
            with open(os.path.join(ud2, "user.dic"), "a", encoding="utf-8") as f:
                for i in range(filler):
                    f.write("ん\t埋%d\t/一般名詞/\n" % i)
            srv = S.Server(bindir, dic, ud2, workers=4, save_secs=1)
            if srv.wait_listening(timeout=60.0):
                res = srv.conv("おさけ", timeout=20.0)
                ts = S.texts(res) or []
                if "御酒" in ts:
                    import glob
                    # something to save: a plain confirmation just before (a server that skips idle saves still has to write now)
                    plain = srv.conv("くるまで", timeout=20.0)
                    srv.rpc("UpdateFrequency", {"session_id": plain[1]["session_id"], "candidate_id": "0"}, timeout=30.0)
                    seen_tmp = S.wait_until(lambda: glob.glob(os.path.join(ud2, "*.tmp")) or None, 10.0, step=0.002)
                    t0 = time.time()
                    st, _ = srv.rpc("UpdateFrequency", {"session_id": res[1]["session_id"], "candidate_id": str(ts.index("御酒"))}, timeout=30.0)
                    answered_after = round(time.time() - t0, 3)
                    stats["compounds_confirmed"] += 1
                    line = "おさけ\t御酒\t/一般名詞/"
                    p2 = os.path.join(ud2, "user.dic")

                    def has_line():
                        try:
                            with open(p2, encoding="utf-8", errors="replace") as fh:
                                return line in fh.read().split("\n")
                        except OSError:
                            return False
                    saved = S.wait_until(has_line, 12.0, step=0.2)
                    w = {"input": "おさけ", "confirmed": "御酒", "user_dictionary_entries": filler, "save_period_s": 1,
                         "confirmation_sent_while_tmp_file_existed": bool(seen_tmp), "confirmation": st,
                         "confirmation_answered_after_s": answered_after}
                    stats["race_with_save"] = w
                    if st != "ok" or saved is None:
                        fails.append(("compound-not-saved", {"kind": "compound-not-saved", "phase": "during-save"}, w))
                    else:
                        srv.stop()
                        srv = S.Server(bindir, dic, ud2, workers=4, save_secs=1)
                        if srv.wait_listening(timeout=60.0):
                            got = S.texts(srv.conv("おさけてき", timeout=20.0)) or []
                            if "御酒的" not in got:
                                fails.append(("compound-lost-by-restart", {"kind": "compound-lost-by-restart", "phase": "during-save"},
                                              dict(w, probe="おさけてき", candidates=got[:8])))
    finally:
        srv.stop()
    dis = S.compare_with_model(run, runners)
    run.cov["server_model_disagreements"] = len(dis)
    if dis and not fails:
        run.failures.append(cl.Failure("correspondence", "model Chokan.Model.Server and the real server disagree on %d replies, e.g. %s"
                                       % (len(dis), json.dumps(dis[0], ensure_ascii=False)[:500]), detail=json.dumps(dis[:3], ensure_ascii=False)))
    shutil.rmtree(wd, ignore_errors=True)
