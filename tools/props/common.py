"""Helpers shared by the library-level checks: run the same request lines through the real code
(harness impl_driver) and the Lean model (chokan_driver) and diff the replies."""
import json

import checklib as cl


def run_both(run, lines, what):
    """Returns (impl_replies, model_replies) or (None, None) when something does not build/run."""
    bindir = run.build_harness(["impl_driver"])
    if bindir is None:
        return None, None
    rc, out, err = run.run_harness(bindir, "impl_driver", input="\n".join(lines) + "\n")
    impl = out.splitlines()
    if rc != 0 or len(impl) != len(lines):
        run.failures.append(cl.Failure("infra", "impl_driver failed on %s (rc=%s, %d/%d replies)" % (what, rc, len(impl), len(lines)),
                                       detail=err[-400:]))
        return None, None
    model = run.run_driver(lines)
    return impl, model


def diff(run, lines, impl, model, what, describe=None):
    dis = []
    if impl is None or model is None:
        return dis
    for l, a, b in zip(lines, impl, model):
        if a != b:
            dis.append({"request": describe(l) if describe else l, "impl": a, "model": b})
    run.cov.setdefault("model_disagreements", 0)
    run.cov["model_disagreements"] += len(dis)
    return dis


def decode_fields(reply):
    """'ok a : b ; c : d' -> [['a','b'],['c','d']] with code-point strings decoded."""
    if not reply.startswith("ok"):
        return None
    body = reply[2:].strip()
    if not body:
        return []
    return [[cl.from_cps(f) for f in item.split(" : ")] for item in body.split(" ; ")]
