"""Shared generator / runner / parsers / oracles for the kkc properties (C01 C02 C03 C06 C16 C20).

One case = (dictionary, learned counts, input).  For each case both sides (real crates through the
chokan_verif hooks; Lean model through the driver) answer, for the four contexts:
  klattice, kedges, kcands n (small, truncating), kcands ALL (untruncated), with and without counts.
"""
import json

import os

import checklib as cl
from props import common

ALPHA = "あいうえおかきくけこさしすせそたちつてとなにぬねのはひふへほまみむめもやゆよらりるれろわをんがぎぐげござじずぜぞだぢづでどばびぶべぼぱぴぷぺぽっぁぃぅぇぉゃゅょーゑゐabcdefghijklmnopqrstuvwxyz"
CTXS = ["normal", "proper", "foreign", "numeral"]
ALLN = 100000
STD_SPEECH = ["N.common", "N.common", "N.proper", "N.sahen", "V.godan.12459", "V.simoIchidan.12496", "ADJ", "ADV", "ADJV",
              "VERBATIM", "CONJ", "PRE", "CNT"]
ANC_SPEECH = ["P.case", "P.adverbial", "P.conjunctive", "P.sentenceFinal", "P.other", "AUX", "AFX.prefix", "AFX.prefix",
              "AFX.suffix", "AFX.suffix", "CNT", "CNT"]
KANJI = "車来繰新過去化進山川田中上下左右東西南北人大小高安長"


def dot(s):
    return "-" if s == "" else ".".join(str(ord(c)) for c in s)


def undot(s):
    return "" if s in ("-", "") else "".join(chr(int(x)) for x in s.split("."))


class Case:
    def __init__(self, words, freq, inp, n):
        self.words = words        # list of (dict 'std'|'anc'|'stdmap'|'ancmap', reading, surface, speech token)
        self.freq = freq          # list of (ctx, surface, count)
        self.inp = inp
        self.n = n

    def lines(self):
        L = ["kreset " + cl.cps(ALPHA)]
        for d, r, s, sp in self.words:
            L.append("kword %s %s | %s | %s" % (d, cl.cps(r), cl.cps(s), sp))
        q = []
        for ctx in CTXS:
            q += ["klattice %s %s" % (ctx, cl.cps(self.inp)), "kedges %s %s" % (ctx, cl.cps(self.inp)),
                  "kcands %s %d %s" % (ctx, self.n, cl.cps(self.inp)), "kcands %s %d %s" % (ctx, ALLN, cl.cps(self.inp)),
                  "kcands %s %d %s" % (ctx, self.n, cl.cps(self.inp))]
        L += q
        for ctx, s, c in self.freq:
            L.append("kfreq %s %s | %d" % (ctx, cl.cps(s), c))
        if self.freq:
            L += q
            # history: the table written and read back (a restart) must answer as before; then every count is raised by one
            # *between* two searches and the next search is in the context searched last
            L.append("kfreqrt")
            L += q
            for ctx, s, c in self.freq:
                L.append("kfreq %s %s | %d" % (ctx, cl.cps(s), c + 1))
            for ctx in reversed(CTXS):
                L += ["klattice %s %s" % (ctx, cl.cps(self.inp)), "kedges %s %s" % (ctx, cl.cps(self.inp)),
                      "kcands %s %d %s" % (ctx, self.n, cl.cps(self.inp)), "kcands %s %d %s" % (ctx, ALLN, cl.cps(self.inp)),
                      "kcands %s %d %s" % (ctx, self.n, cl.cps(self.inp))]
        return L

    def describe(self):
        return {"input": self.inp, "n": self.n,
                "dictionary": [{"dict": d, "reading": r, "surface": s, "speech": sp} for d, r, s, sp in self.words],
                "learned": [{"context": c, "surface": s, "count": k} for c, s, k in self.freq]}


def gen_prefix_family(rng):
    """Several prefix nodes at the head of the input (same reading with different surfaces, and nested prefixes) and standard words
    whose readings are concatenations of two stretches of the input — what a lookup key that is not rebuilt for every start
    position / prefix would look up (C01e seed's shape)."""
    k = 2 + rng.below(3)
    kana = [rng.pick(ALPHA[:60]) for _ in range(k)]
    p = "".join(rng.pick(kana) for _ in range(1 + rng.below(2)))
    rest = "".join(rng.pick(kana) for _ in range(1 + rng.below(4)))
    words = [("anc", p, rng.pick(KANJI), "AFX.prefix"), ("anc", p, rng.pick(KANJI), "AFX.prefix")]
    if rng.chance(1, 2):
        words.append(("anc", p + rest[:1], rng.pick(KANJI), "AFX.prefix"))
    if rng.chance(1, 3):
        words.append(("anc", p, rng.pick(KANJI), "AFX.prefix"))
    inp = p + rest
    if rng.chance(1, 3):
        inp += rng.pick(kana)
    for _ in range(1 + rng.below(3)):
        a = rng.below(len(inp)); b = a + 1 + rng.below(len(inp) - a)
        words.append(("std", inp[a:b], rng.pick(KANJI) + rng.pick(KANJI), rng.pick(STD_SPEECH)))
    for _ in range(2 + rng.below(4)):
        # stale concatenations: two stretches that both start after a prefix
        s1 = len(p) + (rng.below(2) if len(inp) > len(p) + 1 else 0)
        s2 = len(p) + (rng.below(2) if len(inp) > len(p) + 1 else 0)
        e1 = s1 + 1 + rng.below(max(1, len(inp) - s1))
        e2 = s2 + 1 + rng.below(max(1, len(inp) - s2))
        words.append(("std", inp[s1:e1] + inp[s2:e2], rng.pick(KANJI) + rng.pick(KANJI), rng.pick(STD_SPEECH[:4])))
    return Case(words, [], inp[:12], rng.pick([3, 5, 5]))


VOICED = {"か": "が", "き": "ぎ", "く": "ぐ", "け": "げ", "こ": "ご", "さ": "ざ", "し": "じ", "す": "ず", "せ": "ぜ", "そ": "ぞ",
          "た": "だ", "ち": "ぢ", "つ": "づ", "て": "で", "と": "ど", "は": "ば", "ひ": "び", "ふ": "ぶ", "へ": "べ", "ほ": "ぼ"}
HALF_VOICED = {"は": "ぱ", "ひ": "ぴ", "ふ": "ぷ", "へ": "ぺ", "ほ": "ぽ"}


def gen_voiced_family(rng):
    """A word stored under an unvoiced reading and an input that spells it voiced / half-voiced (after a head prefix, or alone):
    a look-up that normalises the key and then "restores" the reading must restore exactly what was typed."""
    first = rng.pick(list(VOICED))
    rest = "".join(rng.pick("るまかんしつきえ") for _ in range(1 + rng.below(3)))
    rd = first + rest
    pre = rng.pick(["お", "こ", "まっ", "だい", "ご"])
    words = [("anc", pre, rng.pick(KANJI), "AFX.prefix"), ("std", rd, rng.pick(KANJI) + rng.pick(KANJI), rng.pick(STD_SPEECH[:4]))]
    if rng.chance(1, 2):
        words.append(("std", VOICED[first] + rest, rng.pick(KANJI), "N.common"))
    typed = HALF_VOICED[first] if first in HALF_VOICED and rng.chance(1, 2) else VOICED[first]
    inp = (pre if rng.chance(3, 4) else "") + typed + rest + ("" if rng.chance(2, 3) else rng.pick(["に", "を", "x"]))
    return Case(words, [], inp[:12], rng.pick([3, 5]))


def gen_homograph_tail_family(rng):
    """A head word followed by two or three ancillary positions, each offering homographs (same reading and written form, different
    parts of speech — or a kana particle next to the input's own kana) plus one word written differently: many tilings spell the
    same text, and with a small n the list must still reach the next *distinct* text."""
    ks = rng.sample(list("かきくけこさしすせそたちつてとなにぬねの"), 6)
    head_rd = ks[0] + ks[1] + (ks[2] if rng.chance(1, 2) else "")
    words = [("std", head_rd, rng.pick(KANJI), rng.pick(["N.common", "N.common", "N.sahen", "N.proper"]))]
    if rng.chance(1, 2):
        words.append(("std", head_rd[:2], rng.pick(KANJI) + "る", "V.hen.12459"))
    tail = ""
    for pos in range(2 + rng.below(2)):
        rd = ks[3 + pos]
        sps = rng.sample(["P.case", "P.adverbial", "P.conjunctive", "P.sentenceFinal", "P.other", "AUX"], 2 + rng.below(2))
        for sp in sps:
            words.append(("anc", rd, rd, sp))                    # kana particle homographs
        if rng.chance(3, 4):
            words.append(("anc", rd, rng.pick(KANJI), rng.pick(["AFX.suffix", "P.case", "CNT", "P.other"])))
        tail += rd * (1 + (rng.below(3) if pos else 0))
    return Case(words, [], (head_rd + tail)[:12], rng.pick([1, 2, 2, 3, 3, 4]))


def long_run_sweep():
    """One long word of every length 1..66 followed by text the dictionary does not know (with and without a particle in
    between): the converted run ends at every position of a long input."""
    out = []
    pat = "かきくけこさしすせそたちつてと"
    for ln in range(1, 67):
        rd = "".join(pat[i % len(pat)] for i in range(ln))
        for with_particle in (False, True):
            words = [("std", rd, "甲", "N.common"), ("anc", "で", "で", "P.case")]
            inp = rd + ("で" if with_particle else "") + "ぬぬね"
            out.append(Case(words, [], inp, 2))
    return out


def gen_case(rng):
    if os.environ.get("CHOKAN_ONLY_FAMILY") == "homograph":
        return gen_homograph_tail_family(rng)
    if rng.chance(1, 8):
        return gen_prefix_family(rng)
    if rng.chance(1, 6):
        return gen_homograph_tail_family(rng)
    if rng.chance(1, 14):
        return gen_voiced_family(rng)
    k = 2 + rng.below(4)
    kana = [rng.pick(ALPHA[:60]) for _ in range(k)]
    nwords = rng.below(9)
    words = []
    for _ in range(nwords):
        anc = rng.chance(2, 5)
        rd = "".join(rng.pick(kana) for _ in range(1 + rng.below(3 if rng.chance(4, 5) else 5)))
        sf = "".join(rng.pick(KANJI) for _ in range(1 + rng.below(2)))
        if rng.chance(1, 8):
            sf = rd                      # surface equal to the reading (kana word)
        if anc:
            sp = rng.pick(ANC_SPEECH) if rng.chance(9, 10) else rng.pick(STD_SPEECH)
        else:
            sp = rng.pick(STD_SPEECH) if rng.chance(9, 10) else rng.pick(ANC_SPEECH)
        d = "anc" if anc else "std"
        if rng.chance(1, 40):
            d += "map"                   # in the map but not in the trie
        words.append((d, rd, sf, sp))
        if rng.chance(1, 4):             # homograph: same reading and surface at the same span, another part of speech
            words.append((d, rd, sf, rng.pick(ANC_SPEECH if anc else STD_SPEECH)))
        if rng.chance(1, 5) and words:   # duplicate reading / homophone / same surface again
            d2, r2, s2, sp2 = rng.pick(words)
            words.append((d2, r2, s2 if rng.chance(1, 2) else rng.pick(KANJI), rng.pick(STD_SPEECH + ANC_SPEECH)))
    ln = 1 + rng.below(8 if rng.chance(4, 5) else 12)
    inp = []
    while len(inp) < ln:
        if words and rng.chance(3, 5):
            inp += list(rng.pick(words)[1])
        else:
            inp.append(rng.pick(kana) if rng.chance(9, 10) else rng.pick("9カx、 "))
    inp = "".join(inp[:12])
    freq = []
    if words and rng.chance(1, 2):
        for _ in range(1 + rng.below(3)):
            w = rng.pick(words)
            c = 1 + rng.below(4)
            ctx = rng.pick(CTXS)
            freq.append((ctx, w[2], c))
            if rng.chance(1, 2):         # the same count in normal and proper (C16 compares them)
                freq.append(("proper" if ctx != "proper" else "normal", w[2], c))
    # de-duplicate (ctx, surface): the last one wins on both sides only if equal; keep the first
    seen = set()
    f2 = []
    for ctx, s, c in freq:
        if (ctx, s) not in seen:
            seen.add((ctx, s))
            f2.append((ctx, s, c))
    n = rng.pick([1, 1, 2, 3, 5])
    return Case(words, f2, inp, n)


CORPUS = [
    Case([("std", "くるま", "車", "N.common"), ("std", "くる", "来る", "V.hen.12459"), ("std", "くる", "繰る", "V.godan.12521"),
          ("anc", "まで", "まで", "P.adverbial"), ("anc", "で", "で", "P.case")], [("normal", "来る", 3)], "くるまではしらなかった", 3),
    # D11: foreign-word context makes a non-suffix-headed candidate appear (known finding)
    Case([("std", "くるま", "車", "N.common"), ("anc", "で", "デ", "P.case"), ("anc", "は", "ハ", "P.adverbial"),
          ("anc", "くるまで", "車出", "AFX.suffix")], [], "くるまでは", 5),
    # affixed candidates (C20)
    Case([("anc", "しん", "新", "AFX.prefix"), ("std", "かこ", "過去", "N.common"), ("anc", "か", "化", "AFX.suffix"),
          ("std", "しんか", "進化", "N.sahen")], [], "しんかこか", 3),
    # the C02 seed's shape: duplicate surface under one reading plus a homophone
    Case([("std", "さんぽ", "散歩", "N.sahen"), ("std", "さんぽ", "三歩", "N.common"), ("std", "さんぽ", "散歩", "N.common")],
         [("normal", "散歩", 1)], "さんぽ", 2),
    # homograph particles at one span that connect to different left neighbours (C02c seed's shape)
    Case([("std", "かい", "貝", "N.common"), ("std", "かい", "買い", "V.godan.12527"), ("std", "かいか", "開花", "N.sahen"),
          ("anc", "から", "から", "P.case"), ("anc", "から", "から", "P.conjunctive")], [("normal", "から", 3)], "かいから", 2),
    Case([("std", "かい", "貝", "N.common"), ("std", "かい", "買い", "V.godan.12527"), ("std", "かいか", "開花", "N.sahen"),
          ("anc", "から", "から", "P.case")], [("normal", "から", 3)], "かいから", 5),
    # prefix followed by a proper noun (C16 seed's shape)
    Case([("std", "やま", "矢間", "N.proper"), ("std", "やま", "山", "N.common"), ("std", "おやま", "小山", "N.common"),
          ("anc", "お", "御", "AFX.prefix")], [], "おやま", 5),
    # two prefix nodes at the head and a word whose reading is what a stale lookup key would spell (C01e seed's shape)
    Case([("anc", "お", "御", "AFX.prefix"), ("anc", "お", "於", "AFX.prefix"), ("std", "ちゃ", "茶", "N.common"),
          ("std", "ちゃちゃ", "茶々", "N.common")], [], "おちゃ", 5),
    Case([("anc", "お", "御", "AFX.prefix"), ("anc", "おお", "大", "AFX.prefix"), ("std", "おき", "沖", "N.common"),
          ("std", "き", "木", "N.common"), ("std", "おきき", "起き木", "N.common")], [], "おおき", 5),
    # input with characters outside the trie alphabet after a word (C03 seed's shape), and whitespace (C01 seed's shape)
    Case([("std", "くるま", "車", "N.common"), ("anc", "しん", "新", "AFX.prefix")], [], "くるま2だい", 3),
    Case([("std", "くるま", "車", "N.common"), ("anc", "で", "で", "P.case")], [], "くるまで　", 3),
    Case([("std", "くるま", "車", "N.common"), ("anc", "で", "で", "P.case")], [], " くるまで", 3),
    Case([("std", "くるま", "車", "N.common"), ("anc", "しん", "新", "AFX.prefix")], [], "しんくるま、はしる", 3),
    # a voiced / half-voiced spelling of a word stored unvoiced, after a head prefix (sequential voicing)
    Case([("anc", "まっ", "真っ", "AFX.prefix"), ("std", "ひるま", "昼間", "N.common")], [], "まっぴるま", 5),
    Case([("anc", "こ", "小", "AFX.prefix"), ("std", "はこ", "箱", "N.common"), ("std", "かいしゃ", "会社", "N.common")], [], "こばこ", 5),
    # a common and a proper noun with the same surface and reading, and a competitor learned in proper-noun context
    Case([("std", "はやし", "林", "N.common"), ("std", "はやし", "林", "N.proper"), ("std", "はやし", "囃子", "N.common")],
         [("proper", "囃子", 5), ("normal", "囃子", 5)], "はやし", 1),
]


CORPUS += [
    # many tilings of one text (homograph particles) before the next distinct text (round 10)
    Case([("std", "くるま", "車", "N.common"), ("std", "くる", "来る", "V.hen.12459"), ("anc", "まで", "まで", "P.adverbial"),
          ("anc", "で", "で", "P.case"), ("anc", "で", "出", "AFX.suffix"), ("anc", "か", "か", "P.adverbial"),
          ("anc", "か", "か", "P.sentenceFinal"), ("anc", "か", "化", "AFX.suffix")], [], "くるまでか", 2),
    Case([("std", "くるま", "車", "N.common"), ("std", "くる", "来る", "V.hen.12459"), ("anc", "まで", "まで", "P.adverbial"),
          ("anc", "で", "で", "P.case"), ("anc", "で", "出", "AFX.suffix"), ("anc", "か", "か", "P.adverbial"),
          ("anc", "か", "か", "P.sentenceFinal"), ("anc", "か", "化", "AFX.suffix")], [], "くるまでかか", 3),
] + long_run_sweep()


def parse_node(tok):
    if tok in ("bos", "eos"):
        return {"kind": tok, "id": tok}
    p = tok.split("~")
    return {"kind": "word" if p[0][0] == "w" else "virtual", "id": p[0], "surface": undot(p[1]), "reading": undot(p[2]),
            "speech": p[3], "end": int(p[0][1:].split(".")[0])}


def parse_cands(reply):
    if not reply.startswith("ok"):
        return None
    body = reply[2:].strip()
    out = []
    if not body:
        return out
    for c in body.split("|"):
        text, score, prio, chain, ind, aff = c.strip().split(";")
        out.append({"text": undot(text), "score": int(score), "priority": int(prio),
                    "chain": [parse_node(t) for t in chain.split(",")],
                    "independent": None if ind == "-" else undot(ind),
                    "affix": None if aff == "-" else tuple(undot(x) for x in aff.split(","))})
    return out


def parse_lattice(reply):
    if not reply.startswith("ok"):
        return None
    pos = []
    for p in (reply[2:].split("|") if len(reply) > 2 else []):
        nodes = []
        for t in p.split():
            f = t.split("/")
            nodes.append({"kind": "word" if f[0] == "w" else "virtual", "end": int(f[1]), "idx": int(f[2]), "fwd": int(f[3]),
                          "surface": undot(f[4]), "reading": undot(f[5]), "speech": f[6],
                          "id": "%s%s.%s" % (f[0], f[1], f[2])})
        pos.append(nodes)
    return pos


def parse_edges(reply):
    if not reply.startswith("ok"):
        return None
    es = []
    for t in reply[2:].split():
        pn, e, ns = t.rsplit(":", 2)
        p, n = pn.split(">")
        es.append((p, n, int(e), int(ns)))
    return es


class Result:
    """Parsed implementation answers of one case."""

    def __init__(self, case, replies):
        self.case = case
        self.base = {}
        self.learned = {}
        i = 0
        for store in ([self.base, self.learned] if case.freq else [self.base]):
            for ctx in CTXS:
                r = replies[i:i + 5]
                i += 5
                store[ctx] = {"lattice": parse_lattice(r[0]), "edges": parse_edges(r[1]), "cands": parse_cands(r[2]),
                              "all": parse_cands(r[3]), "again": parse_cands(r[4]), "raw": r}
        if not case.freq:
            self.learned = None
        self.restored = None
        self.bumped = None

    def add_history(self, restored, bumped):
        def parse(replies, order):
            store = {}
            i = 0
            for ctx in order:
                r = replies[i:i + 5]
                i += 5
                store[ctx] = {"lattice": parse_lattice(r[0]), "edges": parse_edges(r[1]), "cands": parse_cands(r[2]),
                              "all": parse_cands(r[3]), "again": parse_cands(r[4]), "raw": r}
            return store
        self.restored = parse(restored, CTXS)
        self.bumped = parse(bumped, list(reversed(CTXS)))


def all_paths(edges, cap=20000):
    """Every BOS→EOS path whose edges are all connectable; returns [(node id list, score)] or None if above the cap."""
    prevs = {}
    for p, n, e, ns in edges:
        prevs.setdefault(n, []).append((p, e, ns))
    out = []
    stack = [("eos", ["eos"], 0)]
    while stack:
        node, chain, sc = stack.pop()
        if node == "bos":
            out.append((chain, sc))
            if len(out) > cap:
                return None
            continue
        for p, e, ns in prevs.get(node, []):
            if e < 0 or ns < 0:
                continue
            stack.append((p, [p] + chain, sc + e + ns))
    return out


def run_cases(run, ncases_quick=700, ncases_thorough=20000):
    rng = cl.Rng(run.seed)
    n = ncases_thorough if run.tier == "thorough" else ncases_quick
    # CHOKAN_NO_CORPUS=1 measures what the generator finds on its own (used when a seeded change is evaluated)
    cases = ([] if os.environ.get("CHOKAN_NO_CORPUS") else list(CORPUS)) + [gen_case(rng) for _ in range(n)]
    lines = []
    spans = []
    for c in cases:
        L = c.lines()
        nsetup = 1 + len(c.words)
        nq = 20
        spans.append((len(lines), nsetup, nq, len(c.freq)))
        lines += L
    impl, model = common.run_both(run, lines, "kkc")
    if impl is None:
        return None, [], []
    dis = []
    if model is not None:
        for i, (a, b) in enumerate(zip(impl, model)):
            if a != b:
                # find the case
                ci = max(j for j, sp in enumerate(spans) if sp[0] <= i)
                dis.append({"case": cases[ci].describe(), "request": lines[i][:80], "impl": a[:300], "model": b[:300]})
    run.cov["model_disagreements"] = len(dis)
    results = []
    for c, (start, nsetup, nq, nf) in zip(cases, spans):
        reps = impl[start + nsetup:start + nsetup + nq]
        if nf:
            reps = reps + impl[start + nsetup + nq + nf:start + nsetup + nq + nf + nq]
        res = Result(c, reps)
        if nf:
            o3 = start + nsetup + nq + nf + nq          # the "kfreqrt" line
            rt = impl[o3]
            res.roundtrip_reply = rt
            res.add_history(impl[o3 + 1:o3 + 1 + nq], impl[o3 + 1 + nq + nf:o3 + 1 + nq + nf + nq])
        results.append(res)
    return results, dis, cases


def history_oracles(r, fails, stats):
    """Learned counts behave as a plain table under any history: written and read back they answer as before; a count raised
    between two searches in one context is seen by the second search, in its own context only."""
    c = r.case
    if r.learned is None or r.restored is None:
        return
    stats["history_cases"] = stats.get("history_cases", 0) + 1
    if r.roundtrip_reply != "ok":
        fails.append(("counts-roundtrip", {"kind": "counts-roundtrip"}, dict(c.describe(), reply=r.roundtrip_reply)))
        return
    for ctx in CTXS:
        a, b = r.learned[ctx], r.restored[ctx]
        if a["raw"] != b["raw"]:
            fails.append(("restored-counts-differ", {"kind": "restored-counts-differ"},
                          dict(c.describe(), context=ctx, history="counts set; search; counts serialised and read back; search",
                               before=[cd["text"] for cd in a["cands"] or []], after=[cd["text"] for cd in b["cands"] or []],
                               scores_before=[cd.get("score") for cd in a["cands"] or []],
                               scores_after=[cd.get("score") for cd in b["cands"] or []])))
            break
    counts = {(ctx, s): k + 1 for ctx, s, k in c.freq}
    for ctx in CTXS:
        b, l = r.base[ctx], r.bumped[ctx]
        if b["edges"] is None or l["edges"] is None:
            continue
        surf = surface_of(b["lattice"])
        kinds = {n["id"]: n["kind"] for p in b["lattice"] or [] for n in p}
        eb = {(p, n): (e, ns) for p, n, e, ns in b["edges"] or []}
        for p, n, e, ns in l["edges"] or []:
            e0, ns0 = eb.get((p, n), (None, None))
            bonus = counts.get((ctx, surf.get(n, "")), 0) if kinds.get(n) == "word" else 0
            if e0 != e or ns0 is None or ns != ns0 + bonus:
                fails.append(("count-after-search", {"kind": "count-after-search"},
                              dict(c.describe(), context=ctx, node=n, surface=surf.get(n, ""),
                                   history="search in every context (this one last); every learned count raised by one; search in this context",
                                   score_without_counts=[e0, ns0], score_now=[e, ns], expected_rise=bonus)))
                return


def surface_of(lattice):
    m = {"bos": "", "eos": ""}
    for pos in lattice or []:
        for n in pos:
            m[n["id"]] = n["surface"]
    return m


def coverage(run, results, cases, rule_extra=""):
    nontriv = 0
    hist = {"cases": len(cases), "with_learned_counts": 0, "with_virtual_tail": 0, "truncated": 0, "ties_in_top_n": 0,
            "head_prefix": 0, "head_suffix_or_counter": 0, "no_candidate": 0, "panics": 0, "paths_over_cap": 0}
    seen = set()
    for r in results:
        c = r.case
        key = json.dumps(c.describe(), sort_keys=True, ensure_ascii=False)
        b = r.base["normal"]
        if b["all"] is None:
            hist["panics"] += 1
            continue
        if c.freq:
            hist["with_learned_counts"] += 1
        if not b["all"]:
            hist["no_candidate"] += 1
        if any(n["kind"] == "virtual" for cd in b["all"] for n in cd["chain"]):
            hist["with_virtual_tail"] += 1
        if len(b["all"]) > c.n:
            hist["truncated"] += 1
        sc = [cd["score"] for cd in b["all"]]
        if len(sc) != len(set(sc)):
            hist["ties_in_top_n"] += 1
        for ctx in CTXS:
            for cd in r.base[ctx]["all"] or []:
                ws = [n for n in cd["chain"] if n["kind"] == "word"]
                if ws and ws[0]["speech"] == "AFX.prefix":
                    hist["head_prefix"] += 1
                    break
        for ctx in ("foreign", "numeral"):
            for cd in r.base[ctx]["all"] or []:
                ws = [n for n in cd["chain"] if n["kind"] == "word"]
                if ws and ws[0]["speech"] in ("AFX.suffix", "CNT"):
                    hist["head_suffix_or_counter"] += 1
                    break
        lat = b["lattice"] or []
        if len(b["all"]) >= 2 and any(len(p) >= 2 for p in lat) and key not in seen:
            nontriv += 1
        seen.add(key)
    run.cov.update({
        # queries answered by both sides: 20 per case, and 60 more (learned / restored / raised-between-searches) when counts are learned
        "evaluations": sum(20 + (60 if c.freq else 0) for c in cases),
        "distinct_nontrivial": nontriv,
        "rule": "case = random dictionary (0–12 words over 2–5 kana, every speech category in both dictionaries, homophones, "
                "duplicate surfaces, words present in the map but not in the trie) + learned counts + input of 1–12 characters "
                "(mostly concatenations of dictionary readings, also characters outside the alphabet); 4 contexts x "
                "(lattice, edges, n-best, untruncated, repeat). non-trivial = at least 2 candidates and a position with at "
                "least 2 nodes in normal context; distinct by (dictionary, counts, input, n). Directed families: head prefixes, voiced "
                "spellings, homograph tails (many tilings of one text, small n); a fixed corpus of past failures and a sweep of "
                "converted-run lengths 1..66 on inputs of up to 70 characters; with learned counts the four contexts are queried "
                "again after the table was serialised and read back, and after every count was raised between two searches. "
                + rule_extra,
        "samples": [c.describe() for c in cases[len(CORPUS):len(CORPUS) + 2]] + [cases[0].describe()],
        "histogram": hist,
    })


def witness_size(w):
    """Smaller dictionaries and shorter inputs first: the replay shows the smallest failing case found (per failure key)."""
    if not isinstance(w, dict):
        return 10 ** 9
    return 100 * len(w.get("dictionary") or []) + 10 * len(w.get("learned") or w.get("frequency") or []) + len(w.get("input") or "")


def report(run, prop, fails, dis, what):
    seen = set()
    for kind, key, w in sorted(fails, key=lambda f: witness_size(f[2])):
        k = json.dumps(key, sort_keys=True, ensure_ascii=False)
        if k in seen:
            continue
        seen.add(k)
        if len(seen) > 12:
            break
        run.failures.append(cl.Failure("oracle", "kkc violates %s (%s): %s" % (prop, kind, json.dumps(w, ensure_ascii=False)[:260]),
                                       witness=w, key=key))
    if dis and not fails:
        run.failures.append(cl.Failure("correspondence", "model Chokan.Model.Kkc and the kkc crate disagree on %d replies (%s), e.g. %s"
                                       % (len(dis), what, json.dumps(dis[0], ensure_ascii=False)[:500]),
                                       detail=json.dumps(dis[:3], ensure_ascii=False)))
    run.cov["oracle_failures"] = len(fails)


def forward_inconsistency(d):
    """The forward pass on the engine's own numbers: every node's forward score must be the best, over its connectable
    predecessors, of predecessor forward score + edge score + the node's own score.  Returns a description or None."""
    if d["lattice"] is None or d["edges"] is None:
        return None
    fwd = {"bos": 0}
    for pos in d["lattice"]:
        for nd in pos:
            fwd[nd["id"]] = nd["fwd"]
    prevs = {}
    for p_, n_, e_, ns_ in d["edges"]:
        prevs.setdefault(n_, []).append((p_, e_, ns_))
    for nid, f_ in fwd.items():
        if nid == "bos":
            continue
        cands_ = [fwd[p_] + e_ + ns_ for p_, e_, ns_ in prevs.get(nid, []) if e_ >= 0 and ns_ >= 0 and fwd.get(p_, -1) >= 0]
        want_ = max(cands_) if cands_ else None
        if (want_ is None and f_ >= 0) or (want_ is not None and f_ != want_):
            return {"node": nid, "forward_score": f_, "best_over_predecessors": want_,
                    "predecessors": [(p_, fwd.get(p_), e_, ns_) for p_, e_, ns_ in prevs.get(nid, [])][:8]}
    return None
