"""Generator of SKK notes lines for C18: structured, mostly-valid lines over the whole notes grammar, one-character mutations
of them, and a directed table of every conjugation class x row x okuri shape x stem shape."""
KANA = [chr(c) for c in range(0x3041, 0x3094)] + ["ー"]
KANJI = "猿鞭無知愛惜見居書食高静隠密不亜山川"
ROWS = "アカサタナハマヤワラダバガザ"
VSUF = ["行五段", "行四段", "行上一", "行下一", "行上二", "行下二", "変"]
NOUN = ["サ変名詞", "代名詞", "名詞", "人称代名詞", "疑問代名詞", "連語", "複合語", "成句", "連句", "連濁"]
OTHER = ["形容詞", "形容動詞", "助数詞", "感動詞", "連体詞", "副詞", "補助動詞", "接続助詞", "接続詞"]
HEADERS = ["", "", "<base>", "(文語)", "文語", "(連濁)"]
CLASSCH = "abkrsz><#*-()φ."


def rnd(rng, pool, lo, hi):
    return "".join(rng.pick(pool) for _ in range(lo + rng.below(hi - lo + 1)))


def okuri(rng):
    k = rng.below(6)
    if k == 0:
        return ""
    if k == 1:
        return "(" + ",".join("-" + rnd(rng, KANA[1:60], 1, 2) for _ in range(1 + rng.below(2))) + ")"
    if k == 2:
        return "[" + rnd(rng, CLASSCH, 1, 5) + "]"
    if k == 3:
        return "(-" + rnd(rng, KANA[1:60], 1, 2) + ")[" + rnd(rng, CLASSCH, 1, 3) + "]"
    if k == 4:
        return "[" + rnd(rng, CLASSCH, 1, 3) + "](-" + rnd(rng, KANA[1:60], 1, 2) + ")"
    return rng.pick(["()", "(-)", "[]", "(-い,)", "(い)", "[A]"])


def speech(rng):
    k = rng.below(3)
    if k == 0:
        return rng.pick(NOUN) + okuri(rng)
    if k == 1:
        return rng.pick(list(ROWS) + ["パ", "ア"]) + rng.pick(VSUF) + okuri(rng)
    return rng.pick(OTHER) + okuri(rng)


def entry(rng):
    stem = rnd(rng, list(KANJI) + ["カ", "a"], 1, 2)
    k = rng.below(10)
    if k == 0:
        return stem
    if k == 1:
        return stem + ";note"
    if k == 2:
        return stem + ";∥<okuri-nasi>" + rng.pick(["", "x"])
    if k == 3:
        return stem + ";x∥<derived>[a-z]"
    sp = ",".join(speech(rng) for _ in range(1 + (rng.below(3) == 0) + (rng.below(6) == 0)))
    tail = rng.pick(["", "", "", " ¶some note", "¶n", " "])
    return stem + rng.pick([";", ";", ";anno"]) + "∥" + rng.pick(HEADERS) + sp + tail


def line(rng):
    head = rnd(rng, KANA[1:60], 1, 3)
    okl = rng.pick(["", "", "k", "r", "s", "i"])
    sep = rng.pick([" ", " ", "  ", "\t"])
    body = "/".join(entry(rng) for _ in range(1 + (rng.below(3) == 0) + (rng.below(8) == 0)))
    return head + okl + sep + "/" + body + "/"


def mutate(rng, s):
    if not s:
        return s
    i = rng.below(len(s))
    k = rng.below(4)
    if k == 0:
        return s[:i] + s[i + 1:]
    if k == 1:
        return s[:i] + rng.pick(list("/;∥,()[]- ¶<>") + KANA[:5]) + s[i:]
    if k == 2:
        return s[:i] + rng.pick(list("/;∥,()[]-") + ["名詞"]) + s[i + 1:]
    return s[:i] + s[i:i + 3] + s[i:]


def directed():
    """Every row x class, with no / class / fixed (short and long) okuri, kanji / one-byte / mixed stems."""
    out = []
    for row in ROWS:
        for suf in VSUF:
            for ok in ("", "[a-z]", "(-た)", "(-える)", "(-た)[--]"):
                for stem in ("見", "a", "あa", "書a"):
                    for hd in ("", "<base>", "文語"):
                        out.append("くし /%s;∥%s%s%s%s/" % (stem, hd, row, suf, ok))
    for sp in OTHER + NOUN:
        for ok in ("", "[a-z]", "[>]", "[<]", "(-た)", "(-しい)"):
            for stem in ("見", "a", "あa"):
                out.append("くし /%s;∥%s%s/" % (stem, sp, ok))
    return out
