"""Process-level machinery for the server properties (C05–C09, C13–C15, C20, C06 server part):
build the real chokan-server / chokan-dic binaries (release profile, --cfg chokan_verif) from /repo's
working tree, build a dictionary image with the real chokan-dic, start servers, talk JSON-RPC over
HTTP, inspect user data on disk."""
import json
import os
import shutil
import signal
import socket
import subprocess
import time
import urllib.request

import checklib as cl

TARGET = os.path.join(cl.CACHE, "repo-target")
RUNROOT = os.path.join(cl.CACHE, "run")

STD = [("くるま", "車", "一般名詞"), ("くる", "来", "カ行変"), ("くる", "繰", "ラ行五段"), ("かこ", "過去", "一般名詞"),
       ("しんか", "進化", "サ変名詞"), ("やま", "山", "一般名詞"), ("やまだ", "山田", "固有名詞"), ("たか", "高", "形容詞"),
       ("ほん", "本", "一般名詞"), ("き", "木", "一般名詞"), ("こーひー", "珈琲", "一般名詞"), ("さけ", "酒", "一般名詞"), ("さけ", "鮭", "一般名詞")]
ANC = [("まで", "まで", "副助詞"), ("で", "で", "格助詞"), ("は", "は", "副助詞"), ("しん", "新", "接頭辞"), ("か", "化", "接尾辞"),
       ("お", "御", "接頭辞"), ("ほん", "本", "助数詞"), ("ない", "ない", "助動詞"), ("てき", "的", "接尾辞"),
       # independent words that live ONLY in the ancillary dictionary (counters): what is learned about them must survive too
       ("じ", "時", "助数詞"), ("じ", "次", "助数詞"), ("こ", "個", "助数詞")]
TANKAN = [("き", "木", "一般名詞"), ("き", "気", "一般名詞"), ("やま", "山", "一般名詞")]


def build_binaries(run):
    env = {"CARGO_NET_OFFLINE": "true", "RUSTFLAGS": "--cfg chokan_verif", "CARGO_TARGET_DIR": TARGET}
    with cl.Lock("cargo-repo"):
        t = time.time()
        rc, out = cl.sh(["cargo", "build", "--release", "--offline", "-p", "chokan-server", "-p", "chokan-dic"], cwd=cl.REPO,
                        env=env, timeout=3600)
        run.cov["server_build_s"] = round(time.time() - t, 1)
    if rc != 0:
        run.failures.append(cl.Failure("infra", "chokan-server / chokan-dic do not build with --cfg chokan_verif",
                                       detail="\n".join(out.splitlines()[-20:])))
        return None
    return os.path.join(TARGET, "release")


def workdir(tag):
    d = os.path.join(RUNROOT, "%s-%d" % (tag, os.getpid()))
    shutil.rmtree(d, ignore_errors=True)
    os.makedirs(d)
    return d


def write_dic(path, rows):
    with open(path, "w", encoding="utf-8") as f:
        for rd, st, sp in rows:
            f.write("%s\t%s\t/%s/\n" % (rd, st, sp))


def make_dictionary(bindir, wd, std=STD, anc=ANC, tankan=TANKAN):
    write_dic(os.path.join(wd, "std.dic"), std)
    write_dic(os.path.join(wd, "anc.dic"), anc)
    write_dic(os.path.join(wd, "tankan.dic"), tankan)
    out = os.path.join(wd, "chokan.bin")
    p = subprocess.run([os.path.join(bindir, "chokan-dic"), os.path.join(wd, "std.dic"), os.path.join(wd, "anc.dic"),
                        os.path.join(wd, "tankan.dic"), out], stdout=subprocess.PIPE, stderr=subprocess.PIPE, timeout=300)
    if p.returncode != 0 or not os.path.exists(out):
        return None
    return out


def free_port():
    s = socket.socket()
    s.bind(("127.0.0.1", 0))
    p = s.getsockname()[1]
    s.close()
    return p


class Server:
    def __init__(self, bindir, dic, userdir=None, workers=8, save_secs=1, env=None, now_file=None):
        self.port = free_port()
        self.userdir = userdir
        args = [os.path.join(bindir, "chokan-server"), "-p", str(self.port), "-d", dic, "-s", str(save_secs)]
        if userdir:
            args += ["-u", userdir]
        e = dict(os.environ)
        e["TOKIO_WORKER_THREADS"] = str(workers)
        e["RUST_BACKTRACE"] = "0"
        if now_file:
            e["CHOKAN_VERIF_NOW_FILE"] = now_file
        if env:
            e.update(env)
        self.log = open(os.path.join(os.path.dirname(dic), "server-%d.log" % self.port), "w")
        self.p = subprocess.Popen(args, stdout=self.log, stderr=self.log, env=e)
        self.id = 0

    def wait_listening(self, timeout=10.0):
        t0 = time.time()
        while time.time() - t0 < timeout:
            if self.p.poll() is not None:
                return False
            try:
                s = socket.create_connection(("127.0.0.1", self.port), timeout=0.3)
                s.close()
                return True
            except OSError:
                time.sleep(0.05)
        return False

    def rpc(self, method, params, timeout=5.0):
        """Returns ("ok", result) | ("error", rpc error object) | ("closed", why) | ("timeout", None)."""
        self.id += 1
        body = json.dumps({"jsonrpc": "2.0", "id": self.id, "method": method, "params": params}).encode()
        req = urllib.request.Request("http://127.0.0.1:%d/" % self.port, data=body, headers={"Content-Type": "application/json"})
        try:
            with urllib.request.urlopen(req, timeout=timeout) as r:
                data = r.read()
        except socket.timeout:
            return ("timeout", None)
        except urllib.error.HTTPError as e:
            return ("closed", "http %s" % e.code)
        except (urllib.error.URLError, ConnectionError, OSError) as e:
            if "timed out" in str(e):
                return ("timeout", None)
            return ("closed", str(e)[:80])
        try:
            j = json.loads(data)
        except ValueError:
            return ("closed", "bad json")
        if "error" in j:
            return ("error", j["error"])
        return ("ok", j.get("result"))

    def conv(self, inp, kind=None, method="GetCandidates", timeout=5.0):
        params = {"input": inp}
        if kind:
            params["context"] = {"kind": kind}
        return self.rpc(method, params, timeout)

    def dump(self):
        st, r = self.rpc("Verif.Dump", [], 5.0)
        return r if st == "ok" else None

    def alive(self):
        return self.p.poll() is None

    def stop(self, kill=True):
        if self.p.poll() is None:
            self.p.send_signal(signal.SIGKILL if kill else signal.SIGTERM)
            try:
                self.p.wait(timeout=5)
            except subprocess.TimeoutExpired:
                self.p.kill()
        self.log.close()


def texts(res):
    st, r = res
    if st != "ok" or r is None:
        return None
    return [c["candidate"] for c in r["candidates"]]


def read_user_dir(d):
    out = {"user.dic": None, "frequency.bin": None}
    for k in out:
        p = os.path.join(d, k)
        if os.path.exists(p):
            out[k] = open(p, "rb").read()
    return out


def wait_until(pred, timeout=5.0, step=0.05):
    t0 = time.time()
    while time.time() - t0 < timeout:
        v = pred()
        if v:
            return v
        time.sleep(step)
    return None


# ------------------------------------------------------------------ parts used by the kkc-level checks
def c06_part(run, fails, stats):
    from props import c06_server
    c06_server.run_part(run, fails, stats)


def c20_part(run, fails, stats):
    from props import c20_server
    c20_server.run_part(run, fails, stats)


# ------------------------------------------------------------------ histories: real server vs model
CTX_KIND = {"normal": None, "foreign": "ForeignWord", "numeral": "Numeral"}


def dic_text(rows):
    return "".join("%s\t%s\t/%s/\n" % r for r in rows)


def dot(s):
    return "-" if s == "" else ".".join(str(ord(c)) for c in s)


class HistoryRunner:
    """Runs one history on a real server (started on a fresh user directory) and produces the model lines."""

    def __init__(self, run, bindir, dic, wd, tag, std=STD, anc=ANC, tankan=TANKAN, workers=8, env=None, with_dir=True):
        self.run, self.bindir, self.dic, self.wd = run, bindir, dic, wd
        self.userdir = os.path.join(wd, "user-" + tag) if with_dir else None
        self.nowfile = os.path.join(wd, "now-" + tag)
        open(self.nowfile, "w").write("0")
        self.env, self.workers = env, workers
        self.srv = None
        self.sids = []          # real session ids in allocation order
        self.model_lines = ["sload %s | %s | %s | %d" % (cl.cps(dic_text(std)), cl.cps(dic_text(anc)), cl.cps(dic_text(tankan)),
                                                         1 if with_dir else 0)]
        self.real = ["ok"]
        self.ops = [("load",)]
        self.expected_entries = 0
        self.slow = []          # (op, seconds) of every request: bounded-time observation

    def start(self):
        self.srv = Server(self.bindir, self.dic, self.userdir, workers=self.workers, env=self.env, now_file=self.nowfile)
        return self.srv.wait_listening()

    def stop(self):
        if self.srv:
            self.srv.stop()

    def _timed(self, op, f):
        t = time.time()
        r = f()
        self.slow.append((op, round(time.time() - t, 3)))
        return r

    def conv(self, ctx, inp):
        if ctx == "proper":
            res = self._timed("conv", lambda: self.srv.conv(inp, method="GetProperCandidates"))
        else:
            res = self._timed("conv", lambda: self.srv.conv(inp, CTX_KIND[ctx]))
        self.ops.append(("conv", ctx, inp))
        self.model_lines.append("sconv %s %s" % (ctx, cl.cps(inp)))
        if res[0] == "ok":
            self.sids.append(res[1]["session_id"])
            self.real.append("ok sid=%d %s" % (len(self.sids) - 1, ",".join(dot(c["candidate"]) for c in res[1]["candidates"])))
        else:
            self.real.append(res[0])
        return res

    def tankan(self, inp):
        res = self._timed("tankan", lambda: self.srv.rpc("GetTankanCandidates", {"input": inp}))
        self.ops.append(("tankan", inp))
        self.model_lines.append("stankan " + cl.cps(inp))
        self.real.append("ok " + ",".join(dot(c["candidate"]) for c in res[1]["candidates"]) if res[0] == "ok" else res[0])
        return res

    def alpha(self, inp):
        res = self._timed("alpha", lambda: self.srv.rpc("GetAlphabeticCandidate", {"input": inp}))
        self.ops.append(("alpha", inp))
        self.model_lines.append("kana " + cl.cps(inp))
        self.real.append("ok " + cl.cps(res[1]["candidates"][0]["candidate"]) if res[0] == "ok" else res[0])
        return res

    def confirm(self, sess_index, cid, now, raw_sid=None):
        """sess_index: index into the sessions allocated so far, or None with raw_sid for an unknown id."""
        open(self.nowfile, "w").write(str(now))
        sid = raw_sid if sess_index is None else self.sids[sess_index]
        res = self._timed("confirm", lambda: self.srv.rpc("UpdateFrequency", {"session_id": sid, "candidate_id": cid}))
        self.ops.append(("confirm", sess_index, cid, now))
        base = getattr(self, "sids_before_restart", 0)      # the model numbers sessions from 0 again after a restart
        msid = "x" if sess_index is None or sess_index < base else sess_index - base
        self.model_lines.append("sconfirm %s %s %d" % (msid, ".".join(str(ord(ch)) for ch in cid) if cid else "-", now))
        self.real.append("ok" if res[0] == "ok" else res[0])
        self.model_lines.append("sapplyall")
        self.real.append("ok")
        self.ops.append(("apply",))
        return res

    def register(self, kind, reading, word):
        res = self._timed("register", lambda: self.srv.rpc("RegisterWord", {"kind": kind, "reading": reading, "word": word}))
        self.ops.append(("register", kind, reading, word))
        self.model_lines.append("sregister %s %s | %s" % (kind, cl.cps(reading), cl.cps(word)))
        self.real.append("ok" if res[0] == "ok" else "closed" if res[0] in ("closed", "error") else res[0])
        self.model_lines.append("sapplyall")
        self.real.append("ok")
        self.ops.append(("apply",))
        return res

    def settle(self, n_entries, timeout=3.0):
        """Wait until the background updater has applied everything sent so far."""
        ok = wait_until(lambda: (lambda d: d is not None and len(d["user_entries"]) >= n_entries)(self.srv.dump()), timeout)
        time.sleep(0.08)
        return ok is not None

    def dump(self):
        d = self.srv.dump()
        self.ops.append(("dump",))
        self.model_lines.append("sdump")
        if d is None:
            self.real.append("no-dump")
            return None
        fr = sorted("%s:%s:%d:%d" % (c.split("kind: ")[1].rstrip(" }"), dot(w), n, last) for c, w, n, last in d["frequencies"])
        self.real.append("freq=%s user=%s" % (",".join(fr), ",".join(dot(e) for e in d["user_entries"])))
        return d

    def wait_saved(self, timeout=4.0):
        """Wait until a periodic save has happened after now (two ticks)."""
        if not self.userdir:
            return False
        t0 = time.time()
        p = os.path.join(self.userdir, "user.dic")
        time.sleep(1.2)
        return wait_until(lambda: os.path.exists(p) and os.path.getmtime(p) >= t0 + 0.0, timeout) is not None

    def restart(self):
        saved = self.wait_saved()
        self.srv.stop()
        self.model_lines.append("ssave")
        self.real.append("ok")
        self.ops.append(("save",))
        ok = self.start()
        self.sids_before_restart = len(self.sids)
        self.ops.append(("restart",))
        self.model_lines.append("srestart")
        self.real.append("ok" if ok else "not-listening")
        return ok and saved


def compare_with_model(run, runners):
    """Feed every history to the driver (one process, histories separated by their own `sload`) and diff.
    The model numbers sessions per server process; the runner numbers them per history: normalise."""
    lines = []
    for r in runners:
        lines += r.model_lines
    model = run.run_driver(lines)
    dis = []
    if model is None:
        return dis
    i = 0
    for hi, r in enumerate(runners):
        off = 0
        seen_restart = 0
        for op, real, _ in zip(r.ops, r.real, r.model_lines):
            m = model[i]
            i += 1
            if op[0] == "restart":
                seen_restart = sum(1 for x in r.real[:r.ops.index(op)] if x.startswith("ok sid="))
            rr = real.rstrip()
            mm = m.rstrip()
            if mm.startswith("ok sid=") and rr.startswith("ok sid="):
                # session numbers restart from 0 in the model after a restart
                k = int(mm.split(" ")[1][4:])
                mm = "ok sid=%d %s" % (k + seen_restart, mm.split(" ", 2)[2] if mm.count(" ") >= 2 else "")
                mm = mm.rstrip()
                rr = rr.rstrip()
            if op[0] == "dump":
                mm = " ".join(x for x in mm.split(" ") if not x.startswith(("sessions=", "pending=")))
            if rr != mm:
                dis.append({"history": hi, "op": list(op), "real": rr[:300], "model": mm[:300]})
    return dis


def concurrent_phase(bindir, dic, wd, tag, seconds=1.5, clients=4, registrations=0, env=None):
    """Several connections at once: conversion+confirmation pairs (and optionally registrations that must become
    visible) against one real server; returns (observation, list of problems)."""
    import threading
    srv = Server(bindir, dic, os.path.join(wd, "user-" + tag), workers=4, env=env)
    problems = []
    obs = {"clients": clients, "pairs": 0, "registrations": 0}
    if not srv.wait_listening():
        return obs, [("start", "server did not start")]
    stop = threading.Event()
    lock = threading.Lock()

    def pairs(i):
        k_ = 0
        while not stop.is_set():
            # every RPC that converts takes part: GetCandidates in the four contexts and GetProperCandidates, short and long inputs
            k_ += 1
            inp = "くるまで" if (i + k_) % 3 else "くるまではしらなかった" * 6
            if (i + k_) % 2:
                res = srv.conv(inp, timeout=10.0, method="GetProperCandidates")
            else:
                res = srv.conv(inp, CTX_KIND.get(["normal", "foreign", "numeral"][(i + k_) % 3]), timeout=10.0)
            if res[0] != "ok":
                problems.append(("unanswered", "conversion: %s" % res[0]))
                return
            st, _ = srv.rpc("UpdateFrequency", {"session_id": res[1]["session_id"], "candidate_id": "0"}, timeout=10.0)
            if st != "ok":
                problems.append(("unanswered", "confirmation: %s" % st))
                return
            with lock:
                obs["pairs"] += 1

    ths = [threading.Thread(target=pairs, args=(i,)) for i in range(clients)]
    for t in ths:
        t.start()
    t0 = time.time()
    k = 0
    while time.time() - t0 < seconds or k < registrations:
        if k < registrations:
            k += 1
            rd, w = "てすと", "試験%d" % k
            st, _ = srv.rpc("RegisterWord", {"kind": "CommonNoun", "reading": rd, "word": w}, timeout=10.0)
            if st != "ok":
                problems.append(("unanswered", "registration: %s" % st))
                break
            seen = wait_until(lambda: w in (texts(srv.conv(rd, timeout=10.0)) or []), 5.0)
            if not seen:
                problems.append(("not-convertible", "registered %s/%s is not offered within 5 s while other clients convert" % (rd, w)))
                break
            obs["registrations"] += 1
        else:
            time.sleep(0.05)
    stop.set()
    for t in ths:
        t.join(30)
    if any(t.is_alive() for t in ths):
        problems.append(("unanswered", "a client is still waiting for an answer after 30 s"))
    probe = srv.conv("くるまで", timeout=10.0)
    if probe[0] != "ok":
        problems.append(("wedged", "probe conversion after the concurrent phase: %s" % probe[0]))
    srv.stop()
    return obs, problems


def conc_check(run):
    """Fine-grained concurrency model (Lean Model/Conc over the regenerated event lists): evaluate the lock discipline on
    every extracted path and search every pair of requests + the background loops for a schedule that ends in a state in
    which a thread waits for ever.  A schedule found is a model-level witness (replayed on the real server by the
    concurrent phases of the checks)."""
    out = run.run_driver(["conc-discipline", "conc-search"], timeout=600)
    if out is None:
        return
    info = (run.cov.get("translator", {}).get("info", {}) or {}).get("Server") or {}
    run.cov["conc"] = {"discipline": out[0], "deadlock_search": out[1],
                       "handlers": [(h[0], h[1]) for h in info.get("conc_handlers", [])],
                       "task_paths": [t[0] for t in info.get("conc_tasks", [])],
                       "channels_unbounded": info.get("chan_unbounded"),
                       "search_space": "every ordered pair of handler main paths together with two iterations of every background loop; "
                                       "a bounded channel starts full"}
    unnamed = any(p_["module"] == "Server" and "could not be named" in p_["what"] for p_ in (run.extract_meta or {}).get("problems", []))
    if out[1] != "none" and unnamed:
        # a lock the translator cannot name is mapped onto a known one in the generated lists: a schedule found then is an artefact
        run.cov["conc"]["deadlock_search"] = "not meaningful: " + out[1][:80]
        run.failures.append(cl.Failure("proof", "a lock of the server is outside the modelled three: the interleaving model does not describe this code"))
    elif out[1] != "none":
        w = {"kind": "model-deadlock", "threads": out[1].split(" schedule=")[0].replace("deadlock threads=", "").split(","),
             "schedule": out[1].split(" schedule=")[1].split(" ") if " schedule=" in out[1] else [],
             "meaning": "interleaving of the extracted event lists (one event of the named thread per step) after which every "
                        "thread waits for a lock or for room in a bounded channel: no request can complete any more",
             "discipline": out[0]}
        run.failures.append(cl.Failure("oracle", "the interleaving model of the extracted handler/task bodies reaches a deadlock: %s" % out[1][:300],
                                       witness=w, key={"kind": "model-deadlock"}))
    elif out[0] != "ok":
        run.failures.append(cl.Failure("proof", "extracted event lists break the lock discipline (%s) but no deadlocking schedule was found" % out[0]))
