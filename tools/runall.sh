#!/bin/sh
# Refresh every claimed check's evidence on the unchanged tree (quick tier). Usage: tools/runall.sh [ids…]
cd "$(dirname "$0")/.."
ids="$*"
[ -z "$ids" ] && ids=$(python3 -c "import json;print(' '.join(c['property_id'] for c in json.load(open('MANIFEST.json'))['checks']))")
rc=0
for id in $ids; do
  out=$(./check $id --tier quick 2>&1); r=$?
  echo "$out" | tail -1
  [ $r -ne 0 ] && { rc=1; echo "$out" | grep -E 'VIOLATION|\[' | head -5; }
done
exit $rc
