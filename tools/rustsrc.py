"""Small syntactic helpers for reading Rust source text (no full parser): comment stripping that
preserves string/char literals, brace matching, splitting of `match` arms at depth 0."""
import re


def strip_comments(src):
    out = []
    i, n = 0, len(src)
    while i < n:
        c = src[i]
        if src.startswith("//", i):
            while i < n and src[i] != "\n":
                i += 1
            continue
        if src.startswith("/*", i):
            depth = 1
            i += 2
            while i < n and depth:
                if src.startswith("/*", i):
                    depth += 1
                    i += 2
                elif src.startswith("*/", i):
                    depth -= 1
                    i += 2
                else:
                    if src[i] == "\n":
                        out.append("\n")
                    i += 1
            continue
        if c == '"':
            j = i + 1
            while j < n and src[j] != '"':
                if src[j] == "\\":
                    j += 1
                j += 1
            out.append(src[i:j + 1])
            i = j + 1
            continue
        if c == "'":
            # char literal or lifetime
            m = re.match(r"'(\\.[^']*|[^'\\])'", src[i:])
            if m:
                out.append(m.group(0))
                i += len(m.group(0))
                continue
        out.append(c)
        i += 1
    return "".join(out)


def match_close(src, i, open_ch="{", close_ch="}"):
    """src[i] == open_ch; returns index of the matching close (string/char aware)."""
    assert src[i] == open_ch, (src[i - 10:i + 10])
    depth = 0
    n = len(src)
    while i < n:
        c = src[i]
        if c == '"':
            j = i + 1
            while j < n and src[j] != '"':
                if src[j] == "\\":
                    j += 1
                j += 1
            i = j + 1
            continue
        if c == "'":
            m = re.match(r"'(\\.[^']*|[^'\\])'", src[i:])
            if m:
                i += len(m.group(0))
                continue
        if c == open_ch:
            depth += 1
        elif c == close_ch:
            depth -= 1
            if depth == 0:
                return i
        i += 1
    raise ValueError("unbalanced")


def fn_body(src, signature_regex, start=0):
    """Body text (inside the outer braces) of the first fn whose header matches the regex."""
    m = re.compile(signature_regex).search(src, start)
    if not m:
        return None, -1
    i = src.index("{", m.end() - 1) if src[m.end() - 1] != "{" else m.end() - 1
    j = match_close(src, i)
    return src[i + 1:j], i


def block_after(src, regex, start=0):
    """Text inside the first `{...}` following a regex match; returns (text, start index of '{', end index)."""
    m = re.compile(regex).search(src, start)
    if not m:
        return None, -1, -1
    i = src.index("{", m.end() - 1)
    j = match_close(src, i)
    return src[i + 1:j], i, j


def split_arms(body):
    """Split the body of a `match` into (pattern, expr) pairs at nesting depth 0."""
    arms = []
    i, n = 0, len(body)
    while i < n:
        # skip whitespace and commas
        while i < n and body[i] in " \t\r\n,":
            i += 1
        if i >= n:
            break
        # pattern up to `=>` at depth 0
        j = i
        depth = 0
        while j < n:
            c = body[j]
            if c == '"':
                k = j + 1
                while body[k] != '"':
                    if body[k] == "\\":
                        k += 1
                    k += 1
                j = k + 1
                continue
            if c == "'":
                m = re.match(r"'(\\.[^']*|[^'\\])'", body[j:])
                if m:
                    j += len(m.group(0))
                    continue
            if c in "([{":
                depth += 1
            elif c in ")]}":
                depth -= 1
            elif depth == 0 and body.startswith("=>", j):
                break
            j += 1
        pat = body[i:j].strip()
        j += 2
        while j < n and body[j] in " \t\r\n":
            j += 1
        # expression: a block `{...}` (optionally followed by method chain) or up to `,` at depth 0
        k = j
        depth = 0
        while k < n:
            c = body[k]
            if c == '"':
                q = k + 1
                while body[q] != '"':
                    if body[q] == "\\":
                        q += 1
                    q += 1
                k = q + 1
                continue
            if c == "'":
                m = re.match(r"'(\\.[^']*|[^'\\])'", body[k:])
                if m:
                    k += len(m.group(0))
                    continue
            if c in "([{":
                depth += 1
            elif c in ")]}":
                depth -= 1
                if depth == 0 and c == "}" and body[j] == "{":
                    # block expression ends here unless a method chain follows
                    q = k + 1
                    while q < n and body[q] in " \t\r\n":
                        q += 1
                    if q >= n or body[q] != ".":
                        k += 1
                        break
            elif depth == 0 and c == ",":
                break
            k += 1
        arms.append((pat, body[j:k].strip()))
        i = k
    return arms


def str_literals(text):
    """All "..." literals in order (no escapes expected in the tables)."""
    return re.findall(r'"((?:[^"\\]|\\.)*)"', text)


def squash(text):
    return re.sub(r"\s+", "", text)
