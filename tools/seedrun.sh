#!/bin/bash
# Runs the check(s) of every seeded change against it: applies seeded/<id>/patch.diff to /repo, runs ./check, reverts.
# Usage: tools/seedrun.sh [ids…]     (never leaves /repo modified)
cd "$(dirname "$0")/.."
V=$(pwd)
ids="$*"; [ -z "$ids" ] && ids=$(ls seeded)
for id in $ids; do
  if ! git -C /repo apply --check $V/seeded/$id/patch.diff 2>/dev/null; then echo "$id: patch does not apply"; continue; fi
  git -C /repo apply $V/seeded/$id/patch.diff
  out=$(./check ${id:0:3} --tier quick 2>&1); rc=$?
  git -C /repo checkout -- .
  git -C /repo clean -fdq
  # the evidence file just written describes the seeded tree: put the committed record of the unchanged tree back
  git -C $V checkout -- evidence/${id:0:3}.json 2>/dev/null
  line=$(echo "$out" | grep -E '^VIOLATION' | head -1)
  echo "$id: exit=$rc ${line:-NOT DETECTED}"
done
# the generated Lean modules follow /repo again
python3 $V/tools/extract.py >/dev/null
git -C /repo status --short | head -3
